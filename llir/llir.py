"""Engine L: a small forking symbolic executor for the optimised LLVM IR of sm9_core (release profile),
rendering machine integers as mathematical integers (linear integer arithmetic) with

  * every wrap-around made explicit: x mod 2^k / x div 2^k of a term share ONE pair of fresh
    variables (q, r) with x = q*2^k + r, 0 <= r < 2^k;
  * an interval analysis ([lo, hi] per term) that decides, soundly, where no wrap-around can occur
    (so `nuw`/`nsw`/`disjoint` flags are never trusted);
  * the product of two non-constant 64-bit values left UNINTERPRETED: M(x, y) with its range axiom.

An instruction outside the supported subset raises Unsupported -> the obligation is inconclusive.
See /verif/DESIGN.md section 3."""
import re, sys, time, itertools
import z3

W = 1 << 64


class Unsupported(Exception):
    pass


# ------------------------------------------------------------------------------------------ parsing
class Func:
    def __init__(self, name, args, blocks, order, rettype):
        self.name, self.args, self.blocks, self.order, self.rettype = name, args, blocks, order, rettype


class Module:
    def __init__(self, path):
        self.funcs = {}
        self.text = open(path, errors='replace').read()
        self._index()

    def _index(self):
        self.spans = {}
        for m in re.finditer(r'^define [^@]*@("?[^\s("]+"?)\(', self.text, re.M):
            name = m.group(1).strip('"')
            end = self.text.index('\n}\n', m.start())
            self.spans[name] = (m.start(), end)

    def find(self, *frags):
        """unique function whose (mangled) name contains all fragments"""
        c = [n for n in self.spans if all(f in n for f in frags)]
        if len(c) != 1:
            raise Unsupported('function lookup %s -> %d candidates' % (frags, len(c)))
        return c[0]

    def func(self, name):
        if name in self.funcs:
            return self.funcs[name]
        s, e = self.spans[name]
        lines = self.text[s:e].splitlines()
        hdr = lines[0]
        rettype = re.match(r'define (?:[\w()]+ )*?(void|i\d+|ptr|\{[^}]*\}|<[^>]*>) @', re.sub(r'\b(internal|fastcc|noundef|zeroext|range\([^)]*\)|nonnull|align \d+|dso_local|hidden|noalias) ', '', hdr))
        params = hdr[hdr.index('(') + 1: hdr.rindex(')')]
        args = []
        depth = 0
        cur = ''
        for ch in params:
            if ch in '([{<':
                depth += 1
            if ch in ')]}>':
                depth -= 1
            if ch == ',' and depth == 0:
                args.append(cur.strip())
                cur = ''
            else:
                cur += ch
        if cur.strip():
            args.append(cur.strip())
        pargs = []
        for a in args:
            ty = a.split()[0]
            nm = a.split()[-1]
            pargs.append((ty, nm))
        blocks, order = {}, []
        cur = None
        for ln in lines[1:]:
            if not ln.strip() or ln.startswith(';'):
                continue
            m = re.match(r'^("[^"]+"|[\w.$-]+):', ln)
            if m and not ln.startswith(' '):
                cur = m.group(1).strip('"')
                blocks[cur] = []
                order.append(cur)
                continue
            s2 = ln.strip()
            if s2.startswith(';'):
                continue
            # drop trailing metadata / comments
            s2 = re.sub(r', ![\w.]+ ![\w.]+', '', s2)
            s2 = re.sub(r'\s+;.*$', '', s2) if not '"' in s2 else s2
            if cur is None:
                cur = '%entry'
                blocks[cur] = []
                order.append(cur)
            blocks[cur].append(s2)
        f = Func(name, pargs, blocks, order, rettype.group(1) if rettype else 'void')
        self.funcs[name] = f
        return f


# ------------------------------------------------------------------------------------------ terms
class Ctx:
    """term factory: z3 Int terms + interval + trailing-zero facts; collects axioms"""

    def __init__(self):
        self.M = z3.Function('M', z3.IntSort(), z3.IntSort(), z3.IntSort())
        self.axioms = []
        self.rng = {}
        self.tz = {}
        self.splits = {}
        self.nfresh = 0
        self.mul_apps = {}
        self.kterms = []  # results of (x * CONST) mod 2^64 : Montgomery quotient digits, in order
        self.kconst = None
        self.defs = []      # (term, [q, r], axiom) for every split
        self.var_axiom = {}  # var id -> its range axiom

    def key(self, t):
        return t.get_id() if isinstance(t, z3.ExprRef) else ('c', t)

    def var(self, name, lo, hi):
        v = z3.Int(name)
        self.rng[v.get_id()] = (lo, hi)
        ax = z3.And(v >= lo, v <= hi)
        self.axioms.append(ax)
        self.var_axiom[v.get_id()] = ax
        return v

    def fresh(self, pfx, lo, hi):
        self.nfresh += 1
        v = z3.Int('%s!%d' % (pfx, self.nfresh))
        self.rng[v.get_id()] = (lo, hi)
        return v

    def range(self, t):
        if isinstance(t, int):
            return (t, t)
        r = self.rng.get(t.get_id())
        if r is None:
            raise Unsupported('no interval for term %s' % t.sexpr()[:80])
        return r

    def setr(self, t, lo, hi):
        if not isinstance(t, int):
            old = self.rng.get(t.get_id())
            if old:
                lo, hi = max(lo, old[0]), min(hi, old[1])
            self.rng[t.get_id()] = (lo, hi)
        return t

    def tzs(self, t):
        if isinstance(t, int):
            return 400 if t == 0 else (t & -t).bit_length() - 1
        return self.tz.get(t.get_id(), 0)

    def add(self, a, b):
        if isinstance(a, int) and isinstance(b, int):
            return a + b
        if isinstance(a, int) and a == 0:
            return b
        if isinstance(b, int) and b == 0:
            return a
        (la, ha), (lb, hb) = self.range(a), self.range(b)
        t = a + b
        self.setr(t, la + lb, ha + hb)
        self.tz[t.get_id()] = min(self.tzs(a), self.tzs(b))
        return t

    def sub(self, a, b):
        if isinstance(a, int) and isinstance(b, int):
            return a - b
        if isinstance(b, int) and b == 0:
            return a
        (la, ha), (lb, hb) = self.range(a), self.range(b)
        t = a - b
        self.setr(t, la - hb, ha - lb)
        self.tz[t.get_id()] = min(self.tzs(a), self.tzs(b))
        return t

    def mulc(self, a, c):
        """a * concrete c"""
        if isinstance(a, int):
            return a * c
        if c == 0:
            return 0
        if c == 1:
            return a
        la, ha = self.range(a)
        t = a * c
        self.setr(t, min(la * c, ha * c), max(la * c, ha * c))
        self.tz[t.get_id()] = self.tzs(a) + self.tzs(c)
        return t

    def mul(self, a, b):
        if isinstance(a, int):
            return self.mulc(b, a)
        if isinstance(b, int):
            return self.mulc(a, b)
        (la, ha), (lb, hb) = self.range(a), self.range(b)
        if la < 0 or lb < 0 or ha >= W or hb >= W:
            raise Unsupported('symbolic product of operands wider than 64 bits')
        x, y = (a, b) if a.get_id() <= b.get_id() else (b, a)
        k = (x.get_id(), y.get_id())
        if k not in self.mul_apps:
            t = self.M(x, y)
            self.mul_apps[k] = (t, x, y)
            self.axioms.append(z3.And(t >= 0, t <= ha * hb))
            self.setr(t, 0, ha * hb)
            if x.get_id() == y.get_id():
                # an integer square is 0 or 1 modulo 4 (LLVM's known-bits analysis uses exactly this)
                q4, r4 = self.split(t, 4)
                self.axioms.append(z3.IntVal(r4) <= 1 if isinstance(r4, int) else r4 <= 1)
        return self.mul_apps[k][0]

    def split(self, t, n):
        """(t div n, t mod n) for n = 2^k, sharing one pair of fresh variables per (t, n)"""
        if isinstance(t, int):
            return t // n, t % n
        lo, hi = self.range(t)
        if lo >= 0 and hi < n:
            return 0, t
        if lo // n == hi // n:
            q = lo // n
            return q, self.sub(t, q * n)
        k = (t.get_id(), n)
        if k not in self.splits:
            q = self.fresh('q', lo // n, hi // n)
            r = self.fresh('r', 0, n - 1)
            ax = z3.And(t == q * n + r, r >= 0, r < n, q >= lo // n, q <= hi // n)
            self.axioms.append(ax)
            self.defs.append((t, [q, r], ax))
            tzt = self.tzs(t)
            if tzt > 0:
                self.tz[r.get_id()] = min(tzt, n.bit_length() - 1)
            self.splits[k] = (q, r)
        return self.splits[k]

    def relevant(self, exprs):
        """axioms needed to reason about `exprs`: range axioms of their variables and, transitively, the defining
        equations of every split whose dividend is built from already relevant variables"""
        def vars_of(e, acc):
            seen, st = set(), [e]
            while st:
                x = st.pop()
                if x.get_id() in seen:
                    continue
                seen.add(x.get_id())
                if z3.is_const(x) and x.decl().kind() == z3.Z3_OP_UNINTERPRETED:
                    acc.add(x.get_id())
                else:
                    st.extend(x.children())
            return acc
        V = set()
        for e in exprs:
            if isinstance(e, z3.ExprRef):
                vars_of(e, V)
        out = []
        used = set()
        dv = getattr(self, '_defvars', {})
        changed = True
        while changed:
            changed = False
            for i, (t, qr, ax) in enumerate(self.defs):
                if i in used:
                    continue
                if i not in dv:
                    dv[i] = vars_of(t, set())
                if dv[i] <= V:
                    used.add(i)
                    out.append(ax)
                    for v in qr:
                        V.add(v.get_id())
                    changed = True
        self._defvars = dv
        for vid in V:
            if vid in self.var_axiom:
                out.append(self.var_axiom[vid])
        return out

    def relevant_back(self, exprs):
        """goal-directed variant: only the defining equations of the split variables that occur in `exprs`
        (transitively through their dividends), plus range axioms"""
        def vars_of(e, acc):
            seen, st = set(), [e]
            while st:
                x = st.pop()
                if x.get_id() in seen:
                    continue
                seen.add(x.get_id())
                if z3.is_const(x) and x.decl().kind() == z3.Z3_OP_UNINTERPRETED:
                    acc.add(x.get_id())
                else:
                    st.extend(x.children())
            return acc
        if not hasattr(self, '_defby') or len(self._defby_n) != len(self.defs):
            self._defby = {}
            for i, (t, qr, ax) in enumerate(self.defs):
                for v in qr:
                    self._defby[v.get_id()] = i
            self._defby_n = list(range(len(self.defs)))
        V = set()
        for e in exprs:
            if isinstance(e, z3.ExprRef):
                vars_of(e, V)
        out, used = [], set()
        todo = list(V)
        while todo:
            v = todo.pop()
            i = self._defby.get(v)
            if i is not None and i not in used:
                used.add(i)
                t, qr, ax = self.defs[i]
                out.append(ax)
                nv = vars_of(t, set()) | set(x.get_id() for x in qr)
                for w in nv:
                    if w not in V:
                        V.add(w)
                        todo.append(w)
        for vid in V:
            if vid in self.var_axiom:
                out.append(self.var_axiom[vid])
        return out

    def relevant_back_subst(self, exprs, sub):
        """like relevant_back, but every expression and every defining equation is first rewritten with the
        substitution `sub` (list of (term, fresh variable)); definitions of substituted terms are therefore cut off"""
        def vars_of(e, acc):
            seen, st = set(), [e]
            while st:
                x = st.pop()
                if x.get_id() in seen:
                    continue
                seen.add(x.get_id())
                if z3.is_const(x) and x.decl().kind() == z3.Z3_OP_UNINTERPRETED:
                    acc.add(x.get_id())
                else:
                    st.extend(x.children())
            return acc
        defby = {}
        for i, (t, qr, ax) in enumerate(self.defs):
            for v in qr:
                defby[v.get_id()] = i
        subvars = set(v.get_id() for _, v in sub)
        V = set()
        for e in exprs:
            if isinstance(e, z3.ExprRef):
                vars_of(z3.substitute(e, *sub), V)
        out, used = [], set()
        todo = list(V)
        while todo:
            v = todo.pop()
            if v in subvars:
                continue
            i = defby.get(v)
            if i is not None and i not in used:
                used.add(i)
                t, qr, ax = self.defs[i]
                ax2 = z3.substitute(ax, *sub)
                out.append(ax2)
                for w in vars_of(ax2, set()):
                    if w not in V:
                        V.add(w)
                        todo.append(w)
        for vid in V:
            if vid in self.var_axiom and vid not in subvars:
                out.append(self.var_axiom[vid])
        return out

    def mod(self, t, n):
        return self.split(t, n)[1]

    def div(self, t, n):
        return self.split(t, n)[0]

    def ite(self, c, a, b):
        if isinstance(c, bool):
            return a if c else b
        if isinstance(a, int) and isinstance(b, int) and a == b:
            return a
        az = z3.IntVal(a) if isinstance(a, int) else a
        bz = z3.IntVal(b) if isinstance(b, int) else b
        t = z3.If(c, az, bz)
        (la, ha), (lb, hb) = self.range(a), self.range(b)
        self.setr(t, min(la, lb), max(ha, hb))
        self.tz[t.get_id()] = min(self.tzs(a), self.tzs(b))
        return t

    def b2i(self, c):
        if isinstance(c, bool):
            return int(c)
        return self.ite(c, 1, 0)


def is_bool(v):
    return isinstance(v, bool) or isinstance(v, z3.BoolRef)


def bnot(c):
    return (not c) if isinstance(c, bool) else z3.Not(c)


def band(a, b):
    if isinstance(a, bool):
        return b if a else False
    if isinstance(b, bool):
        return a if b else False
    return z3.And(a, b)


def bor(a, b):
    if isinstance(a, bool):
        return True if a else b
    if isinstance(b, bool):
        return True if b else a
    return z3.Or(a, b)


# ------------------------------------------------------------------------------------------ state
class Ptr:
    def __init__(self, obj, off):
        self.obj, self.off = obj, off

    def __repr__(self):
        return 'Ptr(%s+%s)' % (self.obj, self.off)


class State:
    def __init__(self):
        self.mem = {}  # obj -> {byte offset: (value, nbytes)}
        self.pc = []  # path condition (z3 bools)
        self.nobj = 0
        self.trace = []
        self.klog = []  # per-path log of (x * CONST) mod 2^64 terms in execution order (Montgomery quotient digits)

    def clone(self):
        s = State()
        s.mem = {k: dict(v) for k, v in self.mem.items()}
        s.pc = list(self.pc)
        s.nobj = self.nobj
        s.trace = list(self.trace)
        s.klog = list(self.klog)
        return s

    def alloc(self, name=None):
        self.nobj += 1
        n = name or ('obj%d' % self.nobj)
        self.mem[n] = {}
        return n


def tybits(ty):
    ty = ty.strip()
    if ty == 'ptr':
        return 64
    if ty.startswith('i'):
        return int(ty[1:])
    raise Unsupported('type ' + ty)


class Exec:
    """executes one function (following calls into the module) on a State; forks on symbolic branches"""

    def __init__(self, module, ctx, consts=None, hooks=None, max_paths=64, loop_bound=8, solver_timeout=20000, prune=False):
        self.m, self.c = module, ctx
        self.consts = consts or {}  # lazy-static name -> list of 64-bit limbs
        self.hooks = hooks or {}  # callee-name fragment -> python handler(exec, state, args) -> ret
        self.max_paths = max_paths
        self.loop_bound = loop_bound
        self.solver_timeout = solver_timeout
        self.prune = prune
        self.queries = 0
        self.instr_seen = set()
        self.funcs_seen = set()

    # ---- operands
    def val(self, tok, ty, env):
        tok = tok.strip()
        if tok.startswith('%'):
            if tok not in env:
                raise Unsupported('undefined value ' + tok)
            return env[tok]
        if tok == 'true':
            return True
        if tok == 'false':
            return False
        if tok in ('undef', 'poison'):
            return 0
        if tok == 'null':
            return Ptr('null', 0)
        if tok == 'zeroinitializer':
            m = re.match(r'<(\d+) x (i\d+)>', ty.strip())
            if m:
                return tuple([0] * int(m.group(1)))
            return 0
        if tok.startswith('@'):
            return Ptr(tok[1:].strip('"'), 0)
        if tok.startswith('getelementptr'):
            m = re.match(r'getelementptr inbounds (?:nuw )?\(i8, ptr @("?[^,]+?"?), i64 (\d+)\)', tok)
            if not m:
                raise Unsupported('constant expr ' + tok[:60])
            return Ptr(m.group(1).strip('"'), int(m.group(2)))
        if tok.startswith('<'):
            elems = re.findall(r'i\d+ (-?\d+)', tok)
            return tuple(int(e) for e in elems)
        try:
            v = int(tok)
        except ValueError:
            raise Unsupported('operand ' + tok[:60])
        if v < 0 and ty.startswith('i'):
            v += 1 << tybits(ty)
        return v

    # ---- memory
    def global_cell(self, obj, off, nbytes):
        """lazy_static cells: state byte = COMPLETE (2); data = constants parsed from the source"""
        m = re.search(r'sm9_core\.\.(?:fields|pairings|fields\.\.fq4)\.\.(\w+)\$u20\$as\$u20\$core\.\.ops\.\.deref\.\.Deref', obj)
        if m and 'LAZY' in obj:
            name = m.group(1)
            if name not in self.consts:
                raise Unsupported('lazy static %s not in the constant table' % name)
            limbs = self.consts[name]
            data = 8 * len(limbs)
            if off == data and nbytes == 1:
                return 2  # spin::Once status COMPLETE (assumption: initialise-once semantics)
            if off % 8 == 0 and off < data and nbytes == 8:
                return limbs[off // 8]
        raise Unsupported('load from global %s+%d' % (obj[:60], off))

    def load(self, st, p, nbytes):
        if not isinstance(p, Ptr):
            raise Unsupported('load through non-pointer')
        if p.obj not in st.mem:
            return self.global_cell(p.obj, p.off, nbytes)
        cells = st.mem[p.obj]
        if p.off in cells and cells[p.off][1] == nbytes:
            return cells[p.off][0]
        if nbytes > 8 and nbytes % 8 == 0 and all((p.off + 8 * i) in cells and cells[p.off + 8 * i][1] == 8 for i in range(nbytes // 8)):
            # wide integer load composed of 64-bit cells (little endian)
            t = 0
            for i in range(nbytes // 8):
                t = self.c.add(t, self.c.mulc(cells[p.off + 8 * i][0], 1 << (64 * i)))
            return t
        raise Unsupported('load of %d bytes at %s+%d: no matching cell' % (nbytes, p.obj, p.off))

    def store(self, st, p, v, nbytes):
        if not isinstance(p, Ptr) or p.obj not in st.mem:
            raise Unsupported('store to %r' % (p,))
        cells = st.mem[p.obj]
        if nbytes > 8 and nbytes % 8 == 0 and not isinstance(v, Ptr):
            for i in range(nbytes // 8):
                q, r = self.c.split(v, W)
                cells[p.off + 8 * i] = (r, 8)
                v = q
            return
        # remove overlapped cells
        for o in list(cells):
            if o < p.off + nbytes and p.off < o + cells[o][1] and o != p.off:
                del cells[o]
        cells[p.off] = (v, nbytes)

    def memcpy(self, st, d, s, n):
        if s.obj not in st.mem:
            # copy from a lazy-static global
            for o in range(0, n, 8):
                self.store(st, Ptr(d.obj, d.off + o), self.global_cell(s.obj, s.off + o, 8), 8)
            return
        src = st.mem[s.obj]
        items = [(o, src[o]) for o in sorted(src) if s.off <= o < s.off + n]
        covered = sum(c[1] for _, c in items)
        if covered != n:
            raise Unsupported('memcpy of partially initialised / misaligned region (%d of %d bytes)' % (covered, n))
        dst = st.mem[d.obj]
        for o in list(dst):
            if d.off <= o < d.off + n:
                del dst[o]
        for o, c in items:
            dst[d.off + (o - s.off)] = c

    # ---- feasibility
    def feasible(self, st, cond):
        s = z3.Solver()
        s.set('timeout', self.solver_timeout)
        s.add(*self.c.axioms)
        s.add(*st.pc)
        s.add(cond)
        self.queries += 1
        r = s.check()
        return r != z3.unsat

    # ---- running
    def run(self, fname, args, st, start_block=None, env=None, stop_blocks=(), skip_phis=False):
        """returns list of (state, ret_or_('stop', block, env))"""
        f = self.m.func(fname)
        self.funcs_seen.add(fname)
        env0 = dict(env or {})
        if env is None:
            if len(args) != len(f.args):
                raise Unsupported('arity mismatch calling ' + fname)
            for (ty, nm), v in zip(f.args, args):
                env0[nm] = v
        out = []
        work = [(st, start_block or f.order[0], None, env0, {})]
        npaths = 0
        self._skip_phis = start_block if skip_phis else None
        while work:
            st, blk, prev, env, visits = work.pop()
            while True:
                if blk in stop_blocks and prev is not None:
                    out.append((st, ('stop', blk, env, prev)))
                    break
                visits = dict(visits)
                visits[blk] = visits.get(blk, 0) + 1
                if visits[blk] > self.loop_bound:
                    raise Unsupported('loop bound %d exceeded at block %s of %s' % (self.loop_bound, blk, fname))
                res = self.block(f, blk, prev, env, st)
                self._skip_phis = None
                kind = res[0]
                if kind == 'ret':
                    out.append((st, res[1]))
                    break
                if kind == 'goto':
                    prev, blk = blk, res[1]
                    continue
                if kind == 'fork':
                    cond, bt, bf = res[1], res[2], res[3]
                    # pruning is only needed to bound loops; straight-line forks are kept unpruned (an
                    # infeasible path has an unsatisfiable path condition: its goals are discharged trivially)
                    inloop = visits.get(bt, 0) > 0 or visits.get(bf, 0) > 0 or visits.get(blk, 0) > 1
                    if (self.prune or inloop) and not getattr(self, 'never_prune', False):
                        ft = self.feasible(st, cond)
                        ff = self.feasible(st, bnot(cond))
                    else:
                        ft = ff = True
                    if ft and ff:
                        npaths += 1
                        if npaths > self.max_paths:
                            raise Unsupported('more than %d paths in %s' % (self.max_paths, fname))
                        s2 = st.clone()
                        s2.pc.append(bnot(cond))
                        work.append((s2, bf, blk, dict(env), visits))
                        st.pc.append(cond)
                        prev, blk = blk, bt
                    elif ft:
                        prev, blk = blk, bt
                    elif ff:
                        prev, blk = blk, bf
                    else:
                        break  # infeasible path
                    continue
                if kind == 'unreachable':
                    out.append((st, ('unreachable',)))
                    break
                raise Unsupported('block result ' + kind)
        return out

    def block(self, f, blk, prev, env, st):
        c = self.c
        for ins in f.blocks[blk]:
            m = re.match(r'^(%[\w.$-]+|%"[^"]+") = (.*)$', ins)
            if m:
                dst, rhs = m.group(1), m.group(2)
                rhs = re.sub(r'^(tail |notail |musttail )', '', rhs)
                op = rhs.split()[0]
                self.instr_seen.add(op)
                if op == 'phi' and getattr(self, '_skip_phis', None) == blk and prev is None:
                    continue
                env[dst] = self.rhs(f, blk, prev, env, st, op, rhs)
                continue
            ins2 = re.sub(r'^(tail |notail )', '', ins)
            op = ins2.split()[0]
            self.instr_seen.add(op)
            if op == 'store':
                mm = re.match(r'store (<\d+ x i\d+>|i\d+|ptr) (.+?), ptr (\S+?)(?:, align \d+)?(?:, !.*)?$', ins2)
                if not mm:
                    raise Unsupported('store form: ' + ins2[:80])
                ty = mm.group(1)
                v = self.val(mm.group(2), ty, env)
                p = self.val(mm.group(3), 'ptr', env)
                vm = re.match(r'<(\d+) x i(\d+)>', ty)
                if vm:
                    n, w = int(vm.group(1)), int(vm.group(2)) // 8
                    for i in range(n):
                        self.store(st, Ptr(p.obj, p.off + i * w), v[i], w)
                else:
                    self.store(st, p, v, tybits(ty) // 8 if ty != 'i1' else 1)
            elif op == 'br':
                mm = re.match(r'br i1 (\S+), label %("[^"]+"|[\w.$-]+), label %("[^"]+"|[\w.$-]+)', ins2)
                if mm:
                    cnd = self.val(mm.group(1), 'i1', env)
                    t1, t2 = mm.group(2).strip('"'), mm.group(3).strip('"')
                    if isinstance(cnd, bool):
                        return ('goto', t1 if cnd else t2)
                    # lazy_static slow path is never symbolic here (status byte is concrete)
                    return ('fork', cnd, t1, t2)
                mm = re.match(r'br label %("[^"]+"|[\w.$-]+)', ins2)
                return ('goto', mm.group(1).strip('"'))
            elif op == 'ret':
                if ins2.strip() == 'ret void':
                    return ('ret', None)
                mm = re.match(r'ret (\{[^}]*\}|<[^>]*>|i\d+|ptr) (.+)$', ins2)
                return ('ret', self.val(mm.group(2), mm.group(1), env))
            elif op == 'call':
                self.call(f, env, st, ins2, None)
            elif op == 'unreachable':
                return ('unreachable',)
            elif op == 'switch':
                mm = re.match(r'switch (i\d+) (\S+), label %("[^"]+"|[\w.$-]+) \[(.*)\]', ins2)
                v = self.val(mm.group(2), mm.group(1), env)
                if not isinstance(v, int):
                    raise Unsupported('symbolic switch')
                for cv, lb in re.findall(r'i\d+ (-?\d+), label %("[^"]+"|[\w.$-]+)', mm.group(4)):
                    if int(cv) == v:
                        return ('goto', lb.strip('"'))
                return ('goto', mm.group(3).strip('"'))
            else:
                raise Unsupported('instruction: ' + ins2[:80])
        raise Unsupported('block without terminator: ' + blk)

    def rhs(self, f, blk, prev, env, st, op, rhs):
        c = self.c
        if op == 'load':
            mm = re.match(r'load (?:atomic )?(<\d+ x i\d+>|i\d+|ptr), ptr (.+?)(?: (?:acquire|monotonic|seq_cst|unordered))?(?:, align \d+)?(?:, !.*)?$', rhs)
            if not mm:
                raise Unsupported('load form: ' + rhs[:80])
            ty = mm.group(1)
            p = self.val(mm.group(2), 'ptr', env)
            vm = re.match(r'<(\d+) x i(\d+)>', ty)
            if vm:
                n, w = int(vm.group(1)), int(vm.group(2)) // 8
                return tuple(self.load(st, Ptr(p.obj, p.off + i * w), w) for i in range(n))
            return self.load(st, p, max(1, tybits(ty) // 8))
        if op == 'getelementptr':
            mm = re.match(r'getelementptr (?:inbounds )?(?:nuw )?i8, ptr (\S+), i64 (\S+)$', rhs)
            if mm:
                p = self.val(mm.group(1), 'ptr', env)
                o = self.val(mm.group(2), 'i64', env)
                if not isinstance(o, int):
                    raise Unsupported('symbolic pointer offset')
                if o >= 1 << 63:
                    o -= 1 << 64
                return Ptr(p.obj, p.off + o)
            mm = re.match(r'getelementptr (?:inbounds )?(?:nuw )?\[(\d+) x i64\], ptr (\S+), i64 0, i64 (\S+)$', rhs)
            if mm:
                p = self.val(mm.group(2), 'ptr', env)
                o = self.val(mm.group(3), 'i64', env)
                if not isinstance(o, int):
                    raise Unsupported('symbolic array index')
                return Ptr(p.obj, p.off + 8 * o)
            mm = re.match(r'getelementptr (?:inbounds )?(?:nuw )?(i64|\[\d+ x i8\]|i\d+), ptr (\S+), i64 (\S+)$', rhs)
            if mm:
                p = self.val(mm.group(2), 'ptr', env)
                o = self.val(mm.group(3), 'i64', env)
                if not isinstance(o, int):
                    raise Unsupported('symbolic pointer index')
                ety = mm.group(1)
                sz = int(re.match(r'\[(\d+) x i8\]', ety).group(1)) if ety.startswith('[') else tybits(ety) // 8
                if o >= 1 << 63:
                    o -= 1 << 64
                return Ptr(p.obj, p.off + sz * o)
            raise Unsupported('gep form: ' + rhs[:80])
        if op == 'alloca':
            return Ptr(st.alloc(), 0)
        if op in ('zext', 'sext'):
            mm = re.match(r'(zext|sext) (?:nneg )?(i\d+) (\S+) to (i\d+)', rhs)
            v = self.val(mm.group(3), mm.group(2), env)
            if op == 'sext' and mm.group(2) != 'i1':
                raise Unsupported('sext')
            if is_bool(v):
                v = c.b2i(v)
                if op == 'sext':
                    v = c.mulc(v, (1 << tybits(mm.group(4))) - 1)
            return v
        if op == 'trunc':
            mm = re.match(r'trunc (?:nuw |nsw )*(i\d+) (\S+) to (i\d+)', rhs)
            v = self.val(mm.group(2), mm.group(1), env)
            if mm.group(3) == 'i1':
                r = c.mod(v, 2)
                return (r == 1) if not isinstance(r, int) else (r == 1)
            return c.mod(v, 1 << tybits(mm.group(3)))
        if op in ('add', 'sub', 'mul', 'and', 'or', 'xor', 'shl', 'lshr'):
            mm = re.match(r'\w+ (?:nuw |nsw |exact |disjoint )*(i\d+|<\d+ x i\d+>) (\S+), (\S+)$', rhs)
            if not mm:
                raise Unsupported('binop form: ' + rhs[:80])
            ty = mm.group(1)
            if ty.startswith('<'):
                raise Unsupported('vector arithmetic')
            n = 1 << tybits(ty)
            a = self.val(mm.group(2), ty, env)
            b = self.val(mm.group(3), ty, env)
            if ty == 'i1':
                a = a if is_bool(a) else (a == 1)
                b = b if is_bool(b) else (b == 1)
                if op == 'and':
                    return band(a, b)
                if op == 'or':
                    return bor(a, b)
                if op == 'xor':
                    if isinstance(b, bool):
                        return bnot(a) if b else a
                    if isinstance(a, bool):
                        return bnot(b) if a else b
                    return z3.Xor(a, b)
                raise Unsupported('i1 ' + op)
            if is_bool(a):
                a = c.b2i(a)
            if is_bool(b):
                b = c.b2i(b)
            if op == 'add':
                return c.mod(c.add(a, b), n)
            if op == 'sub':
                return c.mod(c.add(c.sub(a, b), n), n)
            if op == 'mul':
                if isinstance(a, int) or isinstance(b, int):
                    t = c.mod(c.mul(a, b), n)
                    if ty == 'i64' and not isinstance(t, int):
                        kc = a if isinstance(a, int) else b
                        if kc > 1 << 32:
                            c.kterms.append((t, kc))
                            st.klog.append((t, kc))
                    return t
                return c.mod(c.mul(a, b), n)
            if op == 'shl':
                if not isinstance(b, int):
                    raise Unsupported('symbolic shift amount')
                return c.mod(c.mulc(a, 1 << b), n)
            if op == 'lshr':
                if not isinstance(b, int):
                    raise Unsupported('symbolic shift amount')
                return c.div(a, 1 << b)
            if op == 'and':
                if isinstance(a, int) and isinstance(b, int):
                    return a & b
                if isinstance(a, int):
                    a, b = b, a
                if isinstance(b, int) and (b & (b + 1)) == 0:
                    return c.mod(a, b + 1)
                if isinstance(b, int):
                    # general constant mask: sum of the bit-fields selected by its runs of ones (exact)
                    runs, i, nb = [], 0, tybits(ty)
                    while i < nb:
                        if (b >> i) & 1:
                            j = i
                            while j < nb and (b >> j) & 1:
                                j += 1
                            runs.append((i, j))
                            i = j
                        else:
                            i += 1
                    if len(runs) > 4:
                        raise Unsupported('and with a mask of more than 4 runs')
                    t = 0
                    for lo, hi in runs:
                        fld = c.div(c.mod(a, 1 << hi), 1 << lo)
                        t = c.add(t, c.mulc(fld, 1 << lo))
                    return t
                raise Unsupported('and with non-constant operands')
            if op == 'or':
                if isinstance(a, int) and isinstance(b, int):
                    return a | b
                # sound only when the operands are bit-disjoint: decide by trailing zeros / interval
                for x, y in ((a, b), (b, a)):
                    hy = c.range(y)[1]
                    if c.range(y)[0] >= 0 and hy < (1 << c.tzs(x)):
                        return c.add(x, y)
                if getattr(self, 'havoc_bitops', False):
                    # sound over-approximation for values outside the claim: an arbitrary value of the type
                    return c.fresh('hv', 0, n - 1)
                raise Unsupported('or of operands not provably bit-disjoint')
            if op == 'xor':
                if isinstance(a, int) and isinstance(b, int):
                    return a ^ b
                if isinstance(b, int) and b == 1 and c.range(a) == (0, 1):
                    return c.sub(1, a)
                raise Unsupported('xor')
        if op == 'icmp':
            mm = re.match(r'icmp (?:samesign )?(\w+) (i\d+|ptr) (\S+), (\S+)$', rhs)
            ty = mm.group(2)
            a = self.val(mm.group(3), ty, env)
            b = self.val(mm.group(4), ty, env)
            if is_bool(a) or is_bool(b):
                a = c.b2i(a) if is_bool(a) else a
                b = c.b2i(b) if is_bool(b) else b
            if isinstance(a, Ptr) or isinstance(b, Ptr):
                raise Unsupported('pointer comparison')
            pred = mm.group(1)
            if isinstance(a, int) and isinstance(b, int):
                return {'eq': a == b, 'ne': a != b, 'ult': a < b, 'ule': a <= b, 'ugt': a > b, 'uge': a >= b}[pred]
            (la, ha), (lb, hb) = c.range(a), c.range(b)
            if pred in ('ult', 'ule', 'ugt', 'uge', 'eq', 'ne'):
                # interval shortcut
                if pred == 'ult' and ha < lb: return True
                if pred == 'ult' and la >= hb: return False
                if pred == 'ugt' and la > hb: return True
                if pred == 'ugt' and ha <= lb: return False
                if pred in ('eq',) and (ha < lb or hb < la): return False
                if pred in ('ne',) and (ha < lb or hb < la): return True
                az = z3.IntVal(a) if isinstance(a, int) else a
                bz = z3.IntVal(b) if isinstance(b, int) else b
                return {'eq': az == bz, 'ne': az != bz, 'ult': az < bz, 'ule': az <= bz, 'ugt': az > bz, 'uge': az >= bz}[pred]
            raise Unsupported('icmp ' + pred)
        if op == 'select':
            mm = re.match(r'select i1 (\S+), (i\d+|ptr) (\S+), (i\d+|ptr) (\S+)$', rhs)
            if not mm:
                raise Unsupported('select form: ' + rhs[:80])
            cnd = self.val(mm.group(1), 'i1', env)
            a = self.val(mm.group(3), mm.group(2), env)
            b = self.val(mm.group(5), mm.group(4), env)
            if isinstance(cnd, bool):
                return a if cnd else b
            if mm.group(2) == 'i1':
                a = a if is_bool(a) else (a == 1)
                b = b if is_bool(b) else (b == 1)
                return bor(band(cnd, a), band(bnot(cnd), b))
            if isinstance(a, Ptr) or isinstance(b, Ptr):
                raise Unsupported('select of pointers on a symbolic condition')
            return c.ite(cnd, a, b)
        if op == 'phi':
            mm = re.match(r'phi (<\d+ x i\d+>|i\d+|ptr|\{[^}]*\}) (.*)$', rhs)
            for v, pb in re.findall(r'\[ (.+?), %("[^"]+"|[\w.$-]+) \]', mm.group(2)):
                if pb.strip('"') == prev:
                    return self.val(v, mm.group(1), env)
            raise Unsupported('phi without incoming edge from %s' % prev)
        if op == 'call':
            return self.call(f, env, st, rhs, True)
        if op == 'extractvalue':
            mm = re.match(r'extractvalue \{[^}]*\} (\S+), (\d+)$', rhs)
            return env[mm.group(1)][int(mm.group(2))]
        if op == 'insertvalue':
            mm = re.match(r'insertvalue (\{[^}]*\}) (\S+), (i\d+|ptr) (\S+), (\d+)$', rhs)
            agg = self.val(mm.group(2), mm.group(1), env)
            n = len(mm.group(1).split(','))
            agg = list(agg) if isinstance(agg, tuple) else [0] * n
            agg[int(mm.group(5))] = self.val(mm.group(4), mm.group(3), env)
            return tuple(agg)
        if op == 'extractelement':
            mm = re.match(r'extractelement <\d+ x i\d+> (\S+), i\d+ (\d+)$', rhs)
            return env[mm.group(1)][int(mm.group(2))]
        if op == 'insertelement':
            mm = re.match(r'insertelement (<(\d+) x i\d+>) (\S+), (i\d+) (\S+), i\d+ (\d+)$', rhs)
            vec = self.val(mm.group(3), mm.group(1), env)
            vec = list(vec) if isinstance(vec, tuple) else [0] * int(mm.group(2))
            vec[int(mm.group(6))] = self.val(mm.group(5), mm.group(4), env)
            return tuple(vec)
        if op == 'shufflevector':
            mm = re.match(r'shufflevector (<(\d+) x i\d+>) (\S+), <\d+ x i\d+> (\S+), <(\d+) x i32> <(.*)>$', rhs)
            a = self.val(mm.group(3), mm.group(1), env)
            b = self.val(mm.group(4), mm.group(1), env)
            n = int(mm.group(2))
            b = b if isinstance(b, tuple) else tuple([0] * n)
            both = tuple(a) + tuple(b)
            return tuple(both[int(i)] for i in re.findall(r'i32 (\d+)', mm.group(6)))
        if op == 'freeze':
            mm = re.match(r'freeze (i\d+) (\S+)$', rhs)
            return self.val(mm.group(2), mm.group(1), env)
        if op == 'bitcast':
            mm = re.match(r'bitcast (<\d+ x i\d+>|i\d+) (\S+) to (<\d+ x i\d+>|i\d+)$', rhs)
            if mm and mm.group(1) == mm.group(3):
                return self.val(mm.group(2), mm.group(1), env)
            raise Unsupported('bitcast')
        raise Unsupported('instruction: %s' % rhs[:80])

    def call(self, f, env, st, text, want):
        c = self.c
        mm = re.match(r'call (?:fastcc |noundef |zeroext |nonnull |align \d+ |range\([^)]*\) )*(void|i\d+|ptr|\{[^}]*\}) @("[^"]+"|[^\s(]+)\((.*)\)(?: #\d+)?(?:, !.*)?$', text)
        if not mm:
            raise Unsupported('call form: ' + text[:100])
        callee = mm.group(2).strip('"')
        # split args at top level
        raw, depth, cur = [], 0, ''
        for ch in mm.group(3):
            if ch in '([{<':
                depth += 1
            if ch in ')]}>':
                depth -= 1
            if ch == ',' and depth == 0:
                raw.append(cur.strip())
                cur = ''
            else:
                cur += ch
        if cur.strip():
            raw.append(cur.strip())
        if callee.startswith('llvm.lifetime.end'):
            # the object is dead from here on: forget its contents
            mp = re.search(r'ptr (?:nonnull )?(%[\w.$-]+|%"[^"]+")', mm.group(3))
            if mp and mp.group(1) in env and isinstance(env[mp.group(1)], Ptr) and env[mp.group(1)].obj in st.mem:
                st.mem[env[mp.group(1)].obj] = {}
            return None
        if callee.startswith('llvm.lifetime') or callee.startswith('llvm.experimental.noalias') or callee == 'llvm.assume' or callee.startswith('llvm.dbg'):
            return None
        args = []
        for a in raw:
            if a.startswith('metadata'):
                args.append(None)
                continue
            ty = a.split()[0]
            tok = a.split()[-1]
            if tok.endswith(')') and 'getelementptr' in a:
                tok = a[a.index('getelementptr'):]
            args.append(self.val(tok, ty, env))
        if callee in ('llvm.x86.addcarry.64', 'llvm.x86.subborrow.64'):
            cin, a, b = args
            cin = c.b2i(cin != 0) if not isinstance(cin, int) else int(cin != 0)
            if callee.endswith('addcarry.64'):
                s = c.add(c.add(a, b), cin)
                q, r = c.split(s, W)
                return (q, r)
            d = c.sub(c.sub(a, b), cin)
            q, r = c.split(c.add(d, W), W)  # d + W in [0, 2W): q = 1 iff no borrow
            return (c.sub(1, q), r)
        if callee.startswith('llvm.memcpy'):
            d, s, n = args[0], args[1], args[2]
            if not isinstance(n, int):
                raise Unsupported('memcpy with symbolic size')
            self.memcpy(st, d, s, n)
            return None
        if callee.startswith('llvm.memset'):
            d, v, n = args[0], args[1], args[2]
            if not (isinstance(n, int) and isinstance(v, int) and n % 8 == 0):
                raise Unsupported('memset form')
            for o in range(0, n, 8):
                self.store(st, Ptr(d.obj, d.off + o), (v * 0x0101010101010101) & (W - 1), 8)
            return None
        if callee.startswith('llvm.fshl.i64'):
            hi, lo, k = args
            if not isinstance(k, int):
                raise Unsupported('fshl symbolic amount')
            k %= 64
            if k == 0:
                return hi
            return c.add(c.mod(c.mulc(hi, 1 << k), W), c.div(lo, 1 << (64 - k)))
        if callee.startswith('llvm.uadd.with.overflow.i64'):
            s = c.add(args[0], args[1])
            q, r = c.split(s, W)
            return (r, (q == 1) if not isinstance(q, int) else (q == 1))
        if callee.startswith('llvm.usub.with.overflow.i64'):
            d = c.add(c.sub(args[0], args[1]), W)
            q, r = c.split(d, W)
            return (r, (q == 0) if not isinstance(q, int) else (q == 0))
        if callee.startswith('llvm.ctlz.i64'):
            a = args[0]
            if isinstance(a, int):
                return 64 - a.bit_length()
            return c.fresh('clz', 0, 64)
        if callee.startswith('llvm.umax.i64') or callee.startswith('llvm.umin.i64'):
            a, b = args
            if isinstance(a, int) and isinstance(b, int):
                return max(a, b) if 'umax' in callee else min(a, b)
            raise Unsupported(callee)
        for frag, h in self.hooks.items():
            if frag in callee:
                return h(self, st, args, callee)
        if callee in self.m.spans:
            res = self.run(callee, args, st)
            if len(res) != 1:
                raise Unsupported('callee %s forked into %d paths (not merged)' % (callee[:50], len(res)))
            st2, ret = res[0]
            # state is mutated in place for the single-path case
            if st2 is not st:
                st.mem, st.pc, st.nobj = st2.mem, st2.pc, st2.nobj
            return ret
        raise Unsupported('call to unknown function ' + callee[:80])
