"""Engine L, loop skeletons: cut-point verification of `<G<P> as Mul<Fr>>::mul` and of the generic `pow` on the
release IR. Callees that are verified elsewhere are abstracted (double -> 2c, add -> c1+c2 on an integer
coefficient; squared -> 2e, mul -> e1+e2 on an exponent); every loop header is a cut point whose integer
phis (bit counter, flags) are enumerated concretely and whose symbolic state (the coefficient) is havocked
under a candidate invariant; the invariant is made inductive Houdini-style and must imply coef == k at `ret`."""
import re, sys, os, time, json
import z3
sys.path.insert(0, os.path.dirname(os.path.abspath(__file__)))
from llir import *

W = 1 << 64


class PointVal:
    def __init__(self, coef):
        self.coef = coef


def cfg(func):
    succ = {}
    for b, ins in func.blocks.items():
        t = ins[-1] if ins else ''
        succ[b] = [x.strip('"') for x in re.findall(r'label %("[^"]+"|[\w.$-]+)', t)]
    return succ


def loop_headers(func):
    succ = cfg(func)
    heads = set()
    color = {}
    stack = [(func.order[0], iter(succ[func.order[0]]))]
    color[func.order[0]] = 1
    while stack:
        b, it = stack[-1]
        adv = False
        for s in it:
            if color.get(s, 0) == 0:
                color[s] = 1
                stack.append((s, iter(succ.get(s, []))))
                adv = True
                break
            elif color.get(s) == 1:
                heads.add(s)
        if not adv:
            color[b] = 2
            stack.pop()
    return heads


def header_phis(func, h):
    out = []
    for ins in func.blocks[h]:
        m = re.match(r'^(%[\w.$-]+|%"[^"]+") = phi (i\d+|ptr) (.*)$', ins)
        if not m:
            break
        inc = {pb.strip('"'): v for v, pb in re.findall(r'\[ (.+?), %("[^"]+"|[\w.$-]+) \]', m.group(3))}
        out.append((m.group(1), m.group(2), inc))
    return out


class Skeleton:
    def __init__(self, module, consts, fname, kind, size, modulus, seed=0):
        """kind: 'smul' (G * Fr: double/add hooks) or 'pow' (squared/mul hooks); size: bytes of the abstracted object"""
        self.m, self.consts, self.fname, self.kind, self.size, self.p = module, consts, fname, kind, size, modulus
        self.func = module.func(fname)
        self.heads = loop_headers(self.func)
        self.queries = 0
        self.seed = seed
        self.log = []

    # ---- abstraction hooks
    def coef_of(self, st, ptr):
        cells = st.mem.get(ptr.obj)
        if cells is None:
            raise Unsupported('abstracted callee reads unknown object')
        c = cells.get(ptr.off)
        if c is not None and isinstance(c[0], PointVal):
            return c[0].coef
        if self.kind == 'smul':
            # an inline-built point: identity iff the z-coordinate (last third) is the stored constant 0
            zs = [cells.get(ptr.off + o) for o in range(2 * self.size // 3, self.size, 8)]
            if all(z is not None and isinstance(z[0], int) and z[0] == 0 for z in zs):
                return 0
            raise Unsupported('point object with unknown contents passed to an abstracted callee')
        # pow: the inline-built value must be the stored `one`: exponent 0
        vals = [cells.get(ptr.off + o) for o in range(0, self.size, 8)]
        if all(v is not None and isinstance(v[0], int) for v in vals):
            got = [v[0] for v in vals]
            if got == self.one_limbs:
                return 0
        raise Unsupported('field object with unknown contents passed to an abstracted callee')

    def abstract_objects(self, st, skip):
        """(obj, coef) for every live object holding an abstracted value (a PointVal or an inline-built identity)"""
        out = []
        for obj, cells in st.mem.items():
            if obj in skip or not cells:
                continue
            try:
                c = self.coef_of(st, Ptr(obj, 0))
            except Unsupported:
                continue
            full = (0 in cells and isinstance(cells[0][0], PointVal)) or all((o in cells) for o in range(0, self.size, 8))
            if full:
                out.append((obj, c))
        return out

    def put(self, st, ptr, coef):
        cells = st.mem[ptr.obj]
        for o in list(cells):
            if ptr.off <= o < ptr.off + self.size:
                del cells[o]
        cells[ptr.off] = (PointVal(coef), self.size)

    def make_exec(self, ctx):
        sk = self

        def h_decode(ex, st, args, callee):
            a, b = args[0], args[1]
            bl = [st.mem.get(b.obj, {}).get(b.off + 8 * i, (None,))[0] for i in range(4)]
            if bl != [1, 0, 0, 0]:
                raise Unsupported('U256::mul call that is not the decode of the scalar (other != 1)')
            for i in range(4):
                ex.store(st, Ptr(a.obj, a.off + 8 * i), sk.K[i], 8)
            sk.decoded = True
            return None

        def h_dbl(ex, st, args, callee):
            if sk.kind == 'smul':
                out, a = args[0], args[1]
                sk.put(st, out, ctx.add(ctx.mulc(sk.coef_of(st, a), 2), 1 if getattr(sk, 'canary', False) else 0))
            else:
                out, a = args[0], args[1]
                sk.put(st, out, ctx.add(ctx.mulc(sk.coef_of(st, a), 2), 1 if getattr(sk, 'canary', False) else 0))
            return None

        def h_add(ex, st, args, callee):
            out, a, b = args[0], args[1], args[2]
            sk.put(st, out, ctx.add(sk.coef_of(st, a), sk.coef_of(st, b)))
            return None

        def h_mul_inplace2(ex, st, args, callee):
            # U256::mul(self, other, modulus, inv) used as field multiplication inside pow (Fq / Fr instantiation):
            # decode (other == 1) or res *= base
            a, b = args[0], args[1]
            bl = [st.mem.get(b.obj, {}).get(b.off + 8 * i, (None,))[0] for i in range(4)]
            if bl == [1, 0, 0, 0] and not sk.decoded:
                return h_decode(ex, st, args, callee)
            sk.put(st, a, ctx.add(sk.coef_of(st, a), sk.coef_of(st, b)))
            return None

        def h_square_inplace(ex, st, args, callee):
            a = args[0]
            sk.put(st, a, ctx.add(ctx.mulc(sk.coef_of(st, a), 2), 1 if getattr(sk, 'canary', False) else 0))
            return None
        if self.kind == 'smul':
            hooks = {'4u2564U2563mul17h': h_decode, 'GroupElement$GT$6double17h': h_dbl, 'core..ops..arith..Add$GT$3add17h': h_add}
        elif self.kind == 'pow_fp':
            hooks = {'4u2564U2563mul17h': h_mul_inplace2, '4u2564U2566square17h': h_square_inplace}
        else:  # pow over Fq12: squared(out, in), mul_inplace(out, a, b), decode of the exponent
            hooks = {'4u2564U2563mul17h': h_decode, 'FieldElement$GT$7squared17h': h_dbl, '11mul_inplace17h': h_add}
        ex = Exec(self.m, ctx, self.consts, hooks=hooks, max_paths=64, loop_bound=3, prune=False)
        ex.never_prune = True
        return ex

    # ---- K div 2^n with the same split variables the executor creates
    def kdiv(self, ctx, n):
        a, b = n // 64, n % 64
        t = 0
        for j in range(a, 4):
            limb = self.K[j]
            if j == a:
                t = ctx.add(t, ctx.div(limb, 1 << b) if b else limb)
            else:
                t = ctx.add(t, ctx.mulc(limb, 1 << (64 * (j - a) - b)))
        return t

    def run(self, budget_ms=20000):
        """returns dict(status, detail, obligations, queries, seconds)"""
        t0 = time.time()
        f = self.func
        ctx = Ctx()
        self.K = [ctx.var('k%d' % i, 0, W - 1) for i in range(4)]
        Kval = sum(z3.IntVal(1 << (64 * i)) * self.K[i] for i in range(4))
        ctx.axioms.append(Kval < self.p)
        self.decoded = False
        ex = self.make_exec(ctx)
        # ---- arguments
        st0 = State()
        args = []
        fargs = f.args
        # (sret out, self/base ptr, scalar ptr) for smul / pow
        for i, (ty, nm) in enumerate(fargs):
            if ty != 'ptr':
                raise Unsupported('unexpected argument type ' + ty)
            obj = st0.alloc('arg%d' % i)
            args.append(Ptr(obj, 0))
        if len(args) != 3:
            raise Unsupported('expected (out, base, scalar) arguments, found %d' % len(args))
        self.put(st0, args[1], 1)  # the base point / base element: coefficient (exponent) 1
        sc = [ctx.var('s%d' % i, 0, W - 1) for i in range(4)]  # stored (Montgomery) limbs of the scalar: irrelevant after decode
        for i in range(4):
            st0.mem[args[2].obj][8 * i] = (sc[i], 8)
        heads = self.heads
        if not heads:
            raise Unsupported('no loop found (fully unrolled or inlined): shape not supported')
        phis = {h: header_phis(f, h) for h in heads}
        for h, ps in phis.items():
            if sum(1 for p in ps if p[1] == 'i64') != 1:
                raise Unsupported('loop header %s does not carry exactly one integer counter' % h)
        # ---- explore abstract header states
        # state key: (header, tuple of concrete phi values)
        res_ptr = None
        work = []
        seen = {}
        # conjunct classes keyed by (header, flags)
        conj = {}  # class -> set of conjunct names still alive
        pending = []  # (src_key, target_key or 'ret', hyps(list of z3), coef term at arrival)
        entry = ex.run(self.fname, args, st0, stop_blocks=heads)
        env_proto = None

        def phi_vals(h, env, prev):
            vals = []
            for name, ty, inc in phis[h]:
                if prev not in inc:
                    raise Unsupported('phi without edge')
                v = ex.val(inc[prev], ty, env)
                vals.append(v)
            return vals

        def klass(h, vals):
            return (h, tuple(v for (n_, ty, _), v in zip(phis[h], vals) if ty != 'i64'))

        def counter(h, vals):
            for (n_, ty, _), v in zip(phis[h], vals):
                if ty == 'i64':
                    return v
        segs = []  # segments to verify: (key, state template)

        def arrive(stp, ret, src):
            if ret is None or not (isinstance(ret, tuple) and ret and ret[0] == 'stop'):
                # function returned: out object must hold coefficient K
                c = self.coef_of(stp, args[0])
                pending.append((src, 'ret', list(stp.pc), c, None))
                return
            _, h, env, prev = ret
            vals = phi_vals(h, env, prev)
            for v in vals:
                if not isinstance(v, (int, bool)):
                    raise Unsupported('symbolic loop-carried scalar at header %s' % h)
            key = (h, tuple(vals))
            # locate the accumulator object: the alloca named %res, or generally every abstract object reachable
            c = None
            pending.append((src, key, list(stp.pc), stp, env))
            if key not in seen:
                seen[key] = (stp, env, prev)
                work.append(key)
        for stp, ret in entry:
            arrive(stp, ret, 'entry')
        nseg = 0
        while work:
            key = work.pop()
            h, vals = key
            stp, env, prev = seen[key]
            # re-run from the header with the accumulator havocked: find abstract objects in memory and replace
            # their coefficients by fresh variables (one per object)
            st = stp.clone()
            st.pc = []
            fresh = {}
            for obj, c in self.abstract_objects(st, (args[1].obj,)):
                cv = ctx.var('c_%d_%s' % (nseg, re.sub(r'\W', '_', obj)), 0, (1 << 258))
                fresh[(obj, 0)] = cv
                self.put(st, Ptr(obj, 0), cv)
            nseg += 1
            if nseg % 20 == 1:
                sys.stderr.write('segment %d key %s work %d t=%.1f\n' % (nseg, key, len(work), time.time() - t0))
            env2 = dict(env)
            for (name, ty, inc), v in zip(phis[h], vals):
                env2[name] = v
            outs = ex.run(self.fname, None, st, start_block=h, env=env2, stop_blocks=heads, skip_phis=True)
            for st2, ret2 in outs:
                arrive(st2, ret2, (key, fresh))
            if nseg > 2000:
                raise Unsupported('more than 2000 segments')
        sys.stderr.write('explored: %d segments, %d cut states, %d pending, %.1fs\n' % (nseg, len(seen), len(pending), time.time() - t0))
        # ---- Houdini over the pending obligations
        # hypothesis at a source key: for every havocked abstract object its coefficient satisfies the class conjuncts
        classes = {}
        for key in seen:
            classes.setdefault(klass(*key), set(['A', 'B']))

        def conj_terms(key, coef):
            h, vals = key
            n = counter(h, vals)
            if not (0 <= n <= 256):
                raise Unsupported('counter out of range')
            kd = self.kdiv(ctx, n) if n < 256 else 0
            return {'A': z(coef) == z(kd), 'B': z(kd) == 0}
        changed = True
        rounds = 0
        nq = 0
        while changed:
            changed = False
            rounds += 1
            for src, tgt, pc, a, b in pending:
                hyps = list(pc)
                if src != 'entry':
                    skey, fresh = src
                    for (obj, off), cv in fresh.items():
                        ct = conj_terms(skey, cv)
                        for nme in classes[klass(*skey)]:
                            hyps.append(ct[nme])
                if tgt == 'ret':
                    continue
                stp, env = a, b
                for obj, coef in self.abstract_objects(stp, (args[1].obj,)):
                    ct = conj_terms(tgt, coef)
                    for nme in list(classes[klass(*tgt)]):
                        s = z3.Solver()
                        s.set('timeout', budget_ms)
                        s.add(*ctx.relevant_back(hyps + [ct[nme], Kval]))
                        s.add(Kval < self.p)
                        s.add(*hyps)
                        s.add(z3.Not(ct[nme]))
                        nq += 1
                        r = s.check()
                        if r != z3.unsat:
                            classes[klass(*tgt)].discard(nme)
                            changed = True
                            sys.stderr.write('  drop %s at %s (from %s): %s\n' % (nme, tgt, src if src == 'entry' else src[0], r))
            sys.stderr.write('houdini round %d: %d queries, classes %s, %.1fs\n' % (rounds, nq, {str(k): sorted(v) for k, v in classes.items()}, time.time() - t0))
            if rounds > 6:
                break
        # ---- final obligations with the surviving invariant: everything inductive now; check ret
        bad = []
        nret = 0
        for src, tgt, pc, a, b in pending:
            if tgt != 'ret':
                continue
            nret += 1
            hyps = list(pc)
            if src != 'entry':
                skey, fresh = src
                for (obj, off), cv in fresh.items():
                    ct = conj_terms(skey, cv)
                    for nme in classes[klass(*skey)]:
                        hyps.append(ct[nme])
            s = z3.Solver()
            s.set('timeout', budget_ms)
            s.add(*ctx.relevant_back(hyps + [z(a), Kval]))
            s.add(Kval < self.p)
            s.add(*hyps)
            s.add(z3.Not(z(a) == Kval))
            nq += 1
            r = s.check()
            if r != z3.unsat:
                mdl = s.model() if r == z3.sat else None
                kv = sum((mdl.eval(k, model_completion=True).as_long() << (64 * i)) for i, k in enumerate(self.K)) if mdl is not None else None
                bad.append((src if src == 'entry' else src[0], str(r), kv))
        self.queries = nq
        secs = time.time() - t0
        inv = {str(k): sorted(v) for k, v in classes.items()}
        if not self.decoded:
            return dict(status='inconclusive', detail='the scalar decode (U256::mul by one) was not found', queries=nq, seconds=secs, segments=nseg)
        if bad:
            return dict(status='sat', detail='return obligation coef == k fails from %d segment(s), e.g. %s; surviving invariant %s' % (len(bad), bad[0][:2], inv),
                        queries=nq, seconds=secs, segments=nseg, scalars=[b[2] for b in bad if b[2] is not None][:8])
        return dict(status='proved', detail='%d segments between %d cut-point states, %d return obligations, inductive invariant per class %s (A: coef = k div 2^n, B: k div 2^n = 0)' % (nseg, len(seen), nret, inv),
                    queries=nq, seconds=secs, segments=nseg)


def z(t):
    return z3.IntVal(t) if isinstance(t, int) else t


def find_smul(module, which):
    """the two monomorphisations of <G<P> as Mul<Fr>>::mul, told apart by the size of the sret object"""
    out = []
    for name in module.spans:
        if 'groups..G$LT$P$GT$$u20$as$u20$core..ops..arith..Mul$LT$sm9_core..fields..fp..Fr$GT$$GT$3mul' in name:
            hdr = module.text[module.spans[name][0]:module.text.index('\n', module.spans[name][0])]
            m = re.search(r'dereferenceable\((\d+)\)', hdr)
            out.append((name, int(m.group(1))))
    for name, size in out:
        if size == (96 if which == 'g1' else 192):
            return name, size
    raise Unsupported('G<P> * Fr (%s) not found as an out-of-line function' % which)


def find_pow(module, which):
    """monomorphisations of FieldElement::pow: Fq / Fr (32-byte result, told apart by the modulus they load) and Fq12"""
    for name in module.spans:
        if 'fields12FieldElement3pow17h' in name:
            s0, e0 = module.spans[name]
            hdr = module.text[s0:module.text.index('\n', s0)]
            size = int(re.search(r'dereferenceable\((\d+)\)', hdr).group(1))
            body = module.text[s0:e0]
            if which == 'fq12' and size == 384:
                return name, size
            if which in ('fq', 'fr') and size == 32:
                usesq = 'fields..FQ$u20$as' in body
                if (which == 'fq') == usesq:
                    return name, size
    raise Unsupported('FieldElement::pow (%s) not found as an out-of-line function' % which)


if __name__ == '__main__':
    import kernels
    ll, repo, which = sys.argv[1:4]
    mod = Module(ll)
    consts = kernels.source_constants(repo)
    rr = kernels.unlimbs(consts['FR'])
    qq = kernels.unlimbs(consts['FQ'])
    res = {}
    try:
        if which in ('g1', 'g2'):
            name, size = find_smul(mod, which)
            sk = Skeleton(mod, consts, name, 'smul', size, rr)
        else:
            name, size = find_pow(mod, which)
            sk = Skeleton(mod, consts, name, 'pow_fp' if which in ('fq', 'fr') else 'pow12', size, qq if which == 'fq' else rr)
            one = consts['FR_ONE'] if which == 'fr' else consts['FQ_ONE']
            sk.one_limbs = list(one) + [0] * (size // 8 - 4)
        sk.canary = len(sys.argv) > 4 and sys.argv[4] == 'canary'
        res = sk.run()
        res['function'] = name
    except Unsupported as e:
        res = dict(status='inconclusive', detail='IR shape not supported: %s' % e, queries=0, seconds=0)
    print('RESULT-JSON ' + json.dumps(res))
