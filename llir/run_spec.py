"""run one engine-L kernel obligation in its own process: python3-vt run_spec.py <ll> <repo> <replay exe> <spec> <seed> <b1,b2>"""
import sys, os, json, time
sys.path.insert(0, os.path.dirname(os.path.abspath(__file__)))
import kernels
from kernels import *
ll, repo, exe, name, seed, budgets = sys.argv[1:7]
kernels.REPLAY_EXE = exe
e = L(ll, repo, int(seed))
out = []
if name == 'L-const':
    res = const_obligations(e.consts)
else:
    sp = [s for s in all_specs() if s.name == name][0]
    e.obligation(sp, [int(b) for b in budgets.split(',')])
    res = e.results
for r in res:
    d = dict(name=r.name, statement=r.statement, functions=r.functions, status=r.status, detail=r.detail, seconds=r.seconds,
             queries=r.queries, vacuity=r.vacuity, canary=r.canary)
    if r.status == 'violated' and isinstance(r.model, dict):
        d['witness'] = {k: (['%x' % x for x in v] if isinstance(v, list) else ('%x' % v if isinstance(v, int) else v)) for k, v in r.model.items()}
    out.append(d)
print('RESULT-JSON ' + json.dumps(out))
