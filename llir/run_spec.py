"""run one engine-L kernel obligation in its own process: python3-vt run_spec.py <ll> <repo> <replay exe> <spec> <seed> <b1,b2>"""
import sys, os, json, time, subprocess
sys.path.insert(0, os.path.dirname(os.path.abspath(__file__)))
import kernels
from kernels import *
ll, repo, exe, name, seed, budgets = sys.argv[1:7]
kernels.REPLAY_EXE = exe
e = L(ll, repo, int(seed))
out = []
if name == 'L-const':
    res = const_obligations(e.consts)
elif name.startswith('L-divrem-'):
    which = name[len('L-divrem-'):]
    rr_ = unlimbs(e.consts['FR'])
    m = {'q': unlimbs(e.consts['FQ']), 'r': rr_, 'r-1': rr_ - 1}[which]
    r = divrem_obligation(e.mod, e.consts, which, m, int(budgets.split(',')[0]) * 2, int(seed))
    if r.status == 'sat':
        # replay: make the refuted step reachable - the dividend starts with the model's remainder
        w = r.model or {}
        cands = []
        if w:
            R0, X0, n0 = int(w['r'], 16), int(w['x'], 16), w['n']
            cands = [X0, (R0 << min(n0, 256)) | (X0 & ((1 << min(n0, 256)) - 1))]
        import random
        rnd = random.Random(3)
        cands += [m, m - 1, m + 1, 2 * m, m * m - 1, (1 << 512) - 1, (m << 256) - 1, (m - 1) * (1 << 256) + (1 << 256) - 1] + [rnd.randrange(1 << 512) for _ in range(4)]
        r.status = 'inconclusive'
        for X in cands:
            X %= 1 << 512
            o = subprocess.run([exe, '--divrem', '%0128x' % X, '%064x' % m], capture_output=True, text=True, timeout=60).stdout.strip()
            if o and int(o, 16) != X % m:
                r.status = 'violated'
                r.model = dict(op='divrem', inputs=[X, m], native=int(o, 16), expected=X % m)
                r.detail = 'native replay reproduces: divrem(%x, %s).1 = %s, expected %x' % (X, which, o, X % m)
                break
    res = [r]
else:
    sp = [s for s in all_specs() if s.name == name][0]
    e.obligation(sp, [int(b) for b in budgets.split(',')])
    res = e.results
for r in res:
    d = dict(name=r.name, statement=r.statement, functions=r.functions, status=r.status, detail=r.detail, seconds=r.seconds,
             queries=r.queries, vacuity=r.vacuity, canary=r.canary)
    if r.status == 'violated' and isinstance(r.model, dict):
        d['witness'] = {k: (['%x' % x for x in v] if isinstance(v, list) else ('%x' % v if isinstance(v, int) else v)) for k, v in r.model.items()}
    out.append(d)
print('RESULT-JSON ' + json.dumps(out))
