"""Engine L obligations over the Montgomery kernels of the release IR. See DESIGN.md section 3."""
import os, re, sys, time, json, subprocess
import z3
sys.path.insert(0, os.path.dirname(os.path.abspath(__file__)))
from llir import *

W = 1 << 64
RR = 1 << 256
Q_STD = 0xB640000002A3A6F1D603AB4FF58EC74521F2934B1A7AEEDBE56F9B27E351457D
R_STD = 0xB640000002A3A6F1D603AB4FF58EC74449F2934B18EA8BEEE56EE19CD69ECF25


def limbs(x, n=4):
    return [(x >> (64 * i)) & (W - 1) for i in range(n)]


def unlimbs(l):
    return sum(v << (64 * i) for i, v in enumerate(l))


def source_constants(repo):
    """lazy_static literals, parsed from the current source (regenerated every run)"""
    out = {}
    for f in ('src/fields.rs', 'src/pairings.rs', 'src/fields/fq4.rs'):
        txt = open(os.path.join(repo, f)).read()
        for m in re.finditer(r'static ref (\w+): U256 = U256::from\(\[\s*([^\]]*)\]\)', txt):
            vals = [int(x.strip().replace('_', ''), 16) for x in m.group(2).split(',') if x.strip()]
            out[m.group(1)] = vals
        for m in re.finditer(r'static ref (\w+): u64 = (0x[0-9A-Fa-f_]+)', txt):
            out[m.group(1)] = [int(m.group(2).replace('_', ''), 16)]
    return out


class Result:
    def __init__(self, name, statement, functions):
        self.name, self.statement, self.functions = name, statement, functions
        self.status = 'pending'
        self.detail = ''
        self.seconds = 0.0
        self.queries = 0
        self.model = None
        self.vacuity = None
        self.canary = None


def check(ctx, hyps, goal, timeout_ms, seed=0):
    """is hyps /\\ axioms /\\ not goal unsatisfiable?  -> ('unsat'|'sat'|'unknown', model)"""
    s = z3.Solver()
    s.set('timeout', timeout_ms)
    s.set('random_seed', seed)
    s.add(*ctx.axioms)
    s.add(*hyps)
    s.add(z3.Not(goal))
    r = s.check()
    if r == z3.sat:
        return 'sat', s.model()
    return ('unsat' if r == z3.unsat else 'unknown'), None


def sat_hyps(ctx, hyps, timeout_ms):
    s = z3.Solver()
    s.set('timeout', timeout_ms)
    s.add(*ctx.axioms)
    s.add(*hyps)
    return str(s.check())


def value(ctx, ls):
    t = 0
    for i, l in enumerate(ls):
        t = ctx.add(t, ctx.mulc(l, 1 << (64 * i)))
    return t


def z(t):
    return z3.IntVal(t) if isinstance(t, int) else t


def lt_val(ctx, ls, p):
    return z(value(ctx, ls)) < p


class Kernel:
    """sets up symbolic operands and runs one kernel function of the IR"""

    def __init__(self, module, consts):
        self.mod, self.consts = module, consts

    def new(self):
        return Ctx()

    def operands(self, ctx, st, name, n=4, concrete=None):
        obj = st.alloc(name)
        vs = []
        for i in range(n):
            v = concrete[i] if concrete is not None else ctx.var('%s%d' % (name, i), 0, W - 1)
            st.mem[obj][8 * i] = (v, 8)
            vs.append(v)
        return Ptr(obj, 0), vs

    def out_limbs(self, st, ptr, n=4):
        return [st.mem[ptr.obj][ptr.off + 8 * i][0] for i in range(n)]


def field_consts(consts, which):
    if which == 'q':
        return dict(p=unlimbs(consts['FQ']), inv=consts['FQ_INV'][0], r2=unlimbs(consts['FQ_SQUARED']), one=unlimbs(consts['FQ_ONE']),
                    P='FQ', std=Q_STD)
    return dict(p=unlimbs(consts['FR']), inv=consts['FR_INV'][0], r2=unlimbs(consts['FR_SQUARED']), one=unlimbs(consts['FR_ONE']),
                P='FR', std=R_STD)


def const_obligations(consts):
    """L-const: the literals in the source equal the Montgomery constants recomputed from the standard's q, r"""
    res = []
    for which in ('q', 'r'):
        fc = field_consts(consts, which)
        p = fc['std']
        checks = [
            ('modulus equals the standard prime', fc['p'] == p),
            ('inv * p[0] = -1 mod 2^64', (fc['inv'] * (p % W) + 1) % W == 0),
            ('R2 = R^2 mod p', fc['r2'] == RR * RR % p),
            ('ONE = R mod p', fc['one'] == RR % p),
        ]
        for what, ok in checks:
            r = Result('L-const-%s: %s' % (which, what), 'source literal vs value recomputed from the standard', ['fields.rs lazy_static literals'])
            r.status = 'proved' if ok else 'violated'
            r.detail = 'constant check (exact integer arithmetic)' if ok else 'literal in src/fields.rs differs from the value derived from the standard'
            r.queries = 1
            res.append(r)
    return res


def run_mul(module, consts, which, mode, bconc=None, timeout_ms=600000, goals=('range', 'value'), seed=0):
    """mode: 'mul' (a,b<p), 'decode' (b = 1), 'encode' (a any 256-bit, b = R2).
    bconc: concrete second operand (exact linear arithmetic, used for replayable counterexamples)."""
    fc = field_consts(consts, which)
    p = fc['p']
    ctx = Ctx()
    st = State()
    k = Kernel(module, consts)
    fname = module.find('4u2564U2563mul17h')
    pa, a = k.operands(ctx, st, 'a')
    if mode == 'decode':
        bconc = [1, 0, 0, 0]
    if mode == 'encode':
        bconc = limbs(fc['r2'])
    pb, b = k.operands(ctx, st, 'b', concrete=bconc)
    pm, _ = k.operands(ctx, st, 'm', concrete=limbs(p))
    ex = Exec(module, ctx, consts)
    t0 = time.time()
    paths = ex.run(fname, [pa, pb, pm, fc['inv']], st)
    A = z(value(ctx, a))
    B = z(value(ctx, b))
    hyps = []
    if mode != 'encode':
        hyps.append(A < p)
    if bconc is None:
        hyps.append(B < p)
    # T = sum a_i b_j W^(i+j) through the same uninterpreted products
    T = 0
    for i in range(4):
        for j in range(4):
            T = ctx.add(T, ctx.mulc(ctx.mul(a[i], b[j]), 1 << (64 * (i + j))))
    T = z(T)
    out = []
    for stp, ret in paths:
        o = k.out_limbs(stp, pa)
        OUT = z(value(ctx, o))
        g = {}
        g['range'] = OUT < p
        g['value'] = (OUT * RR - T) % p == 0
        out.append((stp, o, OUT, g))
    return dict(ctx=ctx, ex=ex, paths=out, hyps=hyps, a=a, b=b, A=A, B=B, T=T, p=p, fc=fc, exec_s=time.time() - t0)


# ------------------------------------------------------------------------------------------ proving
def prove_delta(ctx, hyps, OUT, RHS, p, deltas, budgets_ms, seed=0):
    """is OUT*R == RHS - d*p*R for one d of `deltas` (the number of modulus subtractions on this path)?"""
    n = 0
    verdict = {}
    for b in budgets_ms:
        for d in deltas:
            if verdict.get(d) == 'sat':
                continue
            n += 1
            r, mdl = check(ctx, hyps, OUT * RR == RHS - d * p * RR, b, seed)
            if r == 'unsat':
                return 'unsat', d, n, None
            verdict[d] = (r, mdl) if r == 'sat' else verdict.get(d, (r, None))
            if r == 'sat':
                verdict[d] = 'sat'
                last = mdl
    # refuted only if EVERY admissible number of subtractions is refuted; otherwise undecided within the budget
    if all(verdict.get(d) == 'sat' for d in deltas):
        return 'sat', None, n, last
    return 'unknown', None, n, None


REPLAY_EXE = None


def native_kernel(op, operands):
    args = [REPLAY_EXE, '--kernel', op] + ['%064x' % o for o in operands]
    out = subprocess.run(args, capture_output=True, text=True, timeout=60).stdout.strip()
    return int(out, 16)


def ref_kernel(op, ops, p):
    """reference semantics on stored (Montgomery) values, Python big integers"""
    Rinv = pow(RR, -1, p)
    if op.endswith('_mul'):
        return ops[0] * ops[1] * Rinv % p
    if op.endswith('_square'):
        return ops[0] * ops[0] * Rinv % p
    if op.endswith('sop2'):
        return (ops[0] * ops[2] + ops[1] * ops[3]) * Rinv % p
    if op.endswith('sop4'):
        return sum(ops[i] * ops[i + 4] for i in range(4)) * Rinv % p
    if op.endswith('_decode'):
        return ops[0] * Rinv % p
    if op.endswith('_encode'):
        return ops[0] * RR % p
    if op.endswith('_add'):
        return (ops[0] + ops[1]) % p
    if op.endswith('_sub'):
        return (ops[0] - ops[1]) % p
    if op.endswith('_neg'):
        return (-ops[0]) % p
    if op.endswith('_double'):
        return 2 * ops[0] % p
    if op.endswith('_div2'):
        return ops[0] * pow(2, -1, p) % p
    raise KeyError(op)


class KSpec:
    """one kernel: how to set up its operands in memory, its native name, its spec"""

    def __init__(self, name, op, which, statement, nops, any256=False, deltas=(0, 1)):
        self.name, self.op, self.which, self.statement, self.nops = name, op, which, statement, nops
        self.any256 = any256
        self.deltas = deltas


class L:
    """all engine-L obligations for one IR module"""

    def __init__(self, ll_path, repo, seed=0, log=None):
        self.mod = Module(ll_path)
        self.consts = source_constants(repo)
        self.seed = seed
        self.results = []
        self.log = log or (lambda s: None)

    # ---- running a kernel; operands symbolic (None) or concrete integers
    def run_kernel(self, spec, ctx, st, ex, fc, conc=None, partial=None):
        """returns dict(paths, ins=[limb lists], out=fn(state)->limbs).
        conc: list of concrete operand values (all operands); partial: {index: value} some operands concrete"""
        k = Kernel(self.mod, self.consts)
        op = spec.op
        cv = lambda i: (limbs(conc[i]) if conc is not None else (limbs(partial[i]) if partial and i in partial else None))
        if op in ('mul', 'decode', 'encode'):
            fname = self.mod.find('4u2564U2563mul17h')
            pa, a = k.operands(ctx, st, 'a', concrete=cv(0))
            if op == 'mul':
                pb, b = k.operands(ctx, st, 'b', concrete=cv(1))
            else:
                pb, b = k.operands(ctx, st, 'b', concrete=[1, 0, 0, 0] if op == 'decode' else limbs(fc['r2']))
            pm, _ = k.operands(ctx, st, 'm', concrete=limbs(fc['p']))
            paths = ex.run(fname, [pa, pb, pm, fc['inv']], st)
            ins = [a, b] if op == 'mul' else [a]
            return dict(paths=paths, ins=ins, prod=[(a, b)], out=lambda s: k.out_limbs(s, pa))
        if op == 'square':
            fname = self.mod.find('4u2564U2566square17h')
            pa, a = k.operands(ctx, st, 'a', concrete=cv(0))
            pm, _ = k.operands(ctx, st, 'm', concrete=limbs(fc['p']))
            paths = ex.run(fname, [pa, pm, fc['inv']], st)
            return dict(paths=paths, ins=[a], prod=[(a, a)], out=lambda s: k.out_limbs(s, pa))
        if op in ('sop2', 'sop4'):
            T_ = int(op[3])
            wrapper = self.mod.find('verif_hooks', 'vh_fq_sop%d' % T_)
            body = self.mod.text[self.mod.spans[wrapper][0]:self.mod.spans[wrapper][1]]
            m = re.search(r'call (?:fastcc )?void @("?[^\s(]*sum_of_products[^\s(]*"?)\(', body)
            if not m:
                raise Unsupported('sum_of_products::<%d> is not an out-of-line call in its wrapper' % T_)
            fname = m.group(1).strip('"')
            po = Ptr(st.alloc('out'), 0)
            ca = None if conc is None else sum((limbs(conc[i]) for i in range(T_)), [])
            cb = None if conc is None else sum((limbs(conc[T_ + i]) for i in range(T_)), [])
            if conc is None and partial:
                cb = sum((limbs(partial[T_ + i]) for i in range(T_)), [])
            pa, a = k.operands(ctx, st, 'a', n=4 * T_, concrete=ca)
            pb, b = k.operands(ctx, st, 'b', n=4 * T_, concrete=cb)
            paths = ex.run(fname, [po, pa, pb], st)
            ins = [a[4 * i:4 * i + 4] for i in range(T_)] + [b[4 * i:4 * i + 4] for i in range(T_)]
            return dict(paths=paths, ins=ins, prod=[(a[4 * i:4 * i + 4], b[4 * i:4 * i + 4]) for i in range(T_)], out=lambda s: k.out_limbs(s, po))
        # linear wrappers: (sret out, a[, b])
        fname = self.mod.find('verif_hooks', 'vh_f%s_%s17h' % (spec.which, op))
        po = Ptr(st.alloc('out'), 0)
        ins, args = [], [po]
        for i in range(spec.nops):
            pp, v = k.operands(ctx, st, 'x%d' % i, concrete=cv(i))
            ins.append(v)
            args.append(pp)
        paths = ex.run(fname, args, st)
        return dict(paths=paths, ins=ins, prod=[], out=lambda s: k.out_limbs(s, po))

    def native_name(self, spec):
        if spec.op in ('sop2', 'sop4'):
            return 'fq_' + spec.op
        return 'f%s_%s' % (spec.which, spec.op)

    def validate(self, spec, nrand=4):
        """translator validation + vacuity witness: concrete IR execution == native real build == reference"""
        import random
        fc = field_consts(self.consts, spec.which)
        p = fc['p']
        rnd = random.Random(1000 + self.seed)
        top = RR if spec.any256 else p
        vecs = [[0] * spec.nops, [top - 1] * spec.nops, [1] * spec.nops, [RR % p] * spec.nops]
        for _ in range(nrand):
            vecs.append([rnd.randrange(top) for _ in range(spec.nops)])
        n = 0
        for v in vecs:
            ctx, st = Ctx(), State()
            ex = Exec(self.mod, ctx, self.consts)
            info = self.run_kernel(spec, ctx, st, ex, fc, conc=v)
            if len(info['paths']) != 1:
                return False, 'concrete run forked'
            got = unlimbs(info['out'](info['paths'][0][0]))
            want = ref_kernel(self.native_name(spec), v, p)
            nat = native_kernel(self.native_name(spec), v)
            if not (got == nat):
                return False, 'translator disagrees with the native build on %s: ir=%x native=%x' % (['%x' % x for x in v], got, nat)
            n += 1
        return True, '%d concrete vectors: IR execution == native build' % n

    def spec_rhs(self, spec, ctx, info, fc, stp=None):
        """right-hand side of out*R == RHS - d*p*R; returns (RHS, kind)"""
        p = fc['p']
        if spec.op in ('mul', 'decode', 'encode', 'square', 'sop2', 'sop4'):
            S = 0
            for a, b in info['prod']:
                for i in range(4):
                    for j in range(4):
                        S = ctx.add(S, ctx.mulc(ctx.mul(a[i], b[j]), 1 << (64 * (i + j))))
            # the quotient digits of THIS path, in execution order (a data-dependent branch inside the reduction makes
            # them differ between paths)
            ks = [kt for kt in (stp.klog if stp is not None else ctx.kterms) if kt[1] == fc['inv']]
            if len(ks) != 4:
                raise Unsupported('expected 4 Montgomery quotient digits (x * inv mod 2^64), found %d' % len(ks))
            K = sum(z(kt[0]) * (1 << (64 * i)) for i, kt in enumerate(ks))
            return z(S) + K * p
        vals = [z(value(ctx, v)) for v in info['ins']]
        lin = {'add': lambda: vals[0] + vals[1], 'sub': lambda: vals[0] - vals[1] + p, 'neg': lambda: p - vals[0] + p,
               'double': lambda: 2 * vals[0]}
        if spec.op in lin:
            return lin[spec.op]() * RR
        if spec.op == 'div2':
            return None
        raise Unsupported('no spec for ' + spec.op)

    def obligation(self, spec, budgets, search_cex=True):
        fc = field_consts(self.consts, spec.which)
        p = fc['p']
        res_r = Result(spec.name + '-range', spec.statement + ' : result below the modulus (canonical)', [])
        res_v = Result(spec.name + '-value', spec.statement, [])
        t0 = time.time()
        try:
            ok, msg = self.validate(spec)
            res_r.vacuity = res_v.vacuity = msg
            if not ok:
                raise Unsupported(msg)
            # structured native witnesses first (a few seconds): boundary values, top-heavy tuples, quotient-digit corner
            # cases. A reproduced mismatch is reported at once; the solver then only has to speak for trees that pass them
            w0 = self.quick_witnesses(spec) if search_cex else None
            if w0 is not None:
                res_v.status = 'violated'
                res_v.model = w0
                res_v.detail = 'native replay reproduces: %s(%s) = %x, expected %x' % (self.native_name(spec), ','.join('%x' % x for x in w0['inputs']), w0['native'], w0['expected'])
                res_r.status, res_r.detail = ('violated', res_v.detail) if w0['native'] >= p else ('inconclusive', 'not decided: a value counterexample was found first')
                if res_r.status == 'violated':
                    res_r.model = w0
                res_r.seconds = res_v.seconds = (time.time() - t0) / 2
                self.results += [res_r, res_v]
                return res_r, res_v
            ctx, st = Ctx(), State()
            ex = Exec(self.mod, ctx, self.consts, max_paths=256, loop_bound=8)
            info = self.run_kernel(spec, ctx, st, ex, fc)
            hyps = []
            for v in info['ins']:
                if not spec.any256:
                    hyps.append(z(value(ctx, v)) < p)
            # interpretation of the uninterpreted product (trusted, L-nia-1): sum_ij M(a_i,b_j) W^(i+j) IS the integer
            # product A*B, hence at most (p-1)^2 for canonical operands (resp. (2^256-1)*(p-1) for encode)
            for a_, b_ in info['prod']:
                if all(isinstance(x, int) for x in a_) or all(isinstance(x, int) for x in b_):
                    continue
                S_ = 0
                for i in range(4):
                    for j in range(4):
                        S_ = ctx.add(S_, ctx.mulc(ctx.mul(a_[i], b_[j]), 1 << (64 * (i + j))))
                hyps.append(z(S_) <= (p - 1) * (p - 1))
            res_r.functions = res_v.functions = sorted(ex.funcs_seen)
            npaths, status_r, status_v, det_v = 0, 'proved', 'proved', []
            H0 = None
            bad_models = []
            quick_models = []
            canary_ok = False
            # pass 1: range goal and a quick direct attempt at the value goal on every path; pass 2: the paths still
            # open are decided by the staged proof (through the un-subtracted result H of a proven path), and only
            # then by the direct goal with the long budget
            dbg = (lambda m_: sys.stderr.write('[L %s %.1fs] %s\n' % (spec.name, time.time() - t0, m_))) if os.environ.get('VERIF_LDEBUG') else (lambda m_: None)
            dbg('executed: %d paths' % len(info['paths']))
            todo = []
            todo_range = []
            staged_range = set()
            range_open = {}
            for stp, ret in info['paths']:
                if isinstance(ret, tuple) and ret and ret[0] == 'unreachable':
                    r, _ = check(ctx, hyps + stp.pc, z3.BoolVal(False), budgets[-1], self.seed)
                    if r != 'unsat':
                        status_r = status_v = 'inconclusive'
                        det_v.append('a path ending in `unreachable` (panic) could not be refuted')
                    continue
                npaths += 1
                o = info['out'](stp)
                OUT = z(value(ctx, o))
                h = hyps + stp.pc
                r, mdl = check(ctx, h, z3.And(OUT < p, OUT >= 0), max(budgets[0], 30000) if spec.op != 'div2' else budgets[-1], self.seed)
                res_r.queries += 1
                dbg('path %d range %s' % (npaths, r))
                if r != 'unsat':
                    range_open[npaths] = (h, OUT, r, mdl)
                if spec.op == 'div2':
                    A = z(value(ctx, info['ins'][0]))
                    r, mdl = check(ctx, h, z3.Or(2 * OUT == A, 2 * OUT == A + p), budgets[-1], self.seed)
                    res_v.queries += 1
                    if r == 'unsat':
                        det_v.append('path %d: ok' % npaths)
                    else:
                        status_v = 'sat' if r == 'sat' else ('inconclusive' if status_v != 'sat' else status_v)
                    continue
                RHS = self.spec_rhs(spec, ctx, info, fc, stp)
                r, d, n, mdl = prove_delta(ctx, h, OUT, RHS, p, spec.deltas, budgets[:1], self.seed)
                res_v.queries += n
                dbg('path %d value quick %s' % (npaths, r))
                if r == 'unsat':
                    det_v.append('path %d: %d subtraction(s)' % (npaths, d))
                    if npaths in range_open:
                        todo_range.append((npaths, h, OUT, RHS))
                    if d == 0 and H0 is None:
                        H0 = o
                    if not canary_ok:
                        rc_, _, nn, _ = prove_delta(ctx, h, OUT, RHS + RR, p, spec.deltas, [2000], self.seed)
                        res_v.queries += nn
                        if rc_ != 'unsat':
                            canary_ok = True
                else:
                    todo.append((npaths, h, OUT, RHS))
                    if r == 'sat':
                        quick_models.append(mdl)
            # global lemma for the staged proof, proven ONCE without any path condition:
            #   (c*R + H)*R == RHS for some carry c in {0..cmax},  H = the un-subtracted result (same SSA terms on all paths)
            # It is then added as a hypothesis to the per-path goals, which reduces them to linear reasoning about
            # the conditional subtraction (the Montgomery identity is not re-derived under every path condition).
            # before any long budget is spent on the open paths: cheap native witnesses, then the path-targeted exact search
            early = None
            if search_cex and (todo or range_open):
                if early is None:
                    openp = [(pn_, h_, OUT_) for pn_, h_, OUT_, _ in todo] + [(pn_, v_[0], v_[1]) for pn_, v_ in range_open.items() if pn_ not in [x_[0] for x_ in todo]]
                    early = self.targeted_search(spec, ctx, info, fc, openp, [v_[3] for v_ in range_open.values()] + quick_models)
                    res_v.queries += getattr(self, 'targeted_queries', 0)
                dbg('early witness search: %s' % ('found' if early else 'none'))
            if early is not None:
                w = early
                res_v.status = 'violated'
                res_v.model = w
                res_v.detail = 'native replay reproduces: %s(%s) = %x, expected %x' % (self.native_name(spec), ','.join('%x' % x for x in w['inputs']), w['native'], w['expected'])
                res_r.status, res_r.detail = ('violated', res_v.detail) if w['native'] >= p else (('proved', '%d paths, all canonical' % npaths) if not range_open else ('inconclusive', 'range goals left open; a value counterexample was found first'))
                if res_r.status == 'violated':
                    res_r.model = w
                res_r.seconds = res_v.seconds = (time.time() - t0) / 2
                self.results += [res_r, res_v]
                return res_r, res_v
            lemma = None
            if False and (todo or todo_range) and H0 is not None:  # measured: not helpful on this encoding (see DESIGN 11.3)
                Hv = z(value(ctx, H0))
                cmax = len(info['prod'])
                RHS0 = self.spec_rhs(spec, ctx, info, fc)
                gl = z3.Or(*[(c_ * RR + Hv) * RR == RHS0 for c_ in range(cmax + 1)])
                for bud_ in (30000, budgets[-1]):
                    s2 = z3.Solver(); s2.set('timeout', bud_); s2.add(*ctx.relevant_back(hyps + [gl])); s2.add(*hyps); s2.add(z3.Not(gl))
                    res_v.queries += 1
                    rr2_ = s2.check()
                    dbg('global lemma (budget %d): %s' % (bud_, rr2_))
                    if rr2_ == z3.unsat:
                        lemma = gl
                        break
                    if rr2_ == z3.sat:
                        break
            for pn, h, OUT, RHS, ronly in [x_ + (False,) for x_ in todo] + [x_ + (True,) for x_ in todo_range]:
                r, d = 'unknown', None
                if lemma is not None:
                    if ronly:
                        r_, _ = check(ctx, h + [lemma], z3.And(OUT < p, OUT >= 0), budgets[-1], self.seed)
                        res_r.queries += 1
                        dbg('path %d range with lemma: %s' % (pn, r_))
                        if r_ == 'unsat':
                            staged_range.add(pn)
                    else:
                        r, d, n, mdl = prove_delta(ctx, h + [lemma], OUT, RHS, p, spec.deltas, budgets, self.seed)
                        res_v.queries += n
                        dbg('path %d value with lemma: %s (%s)' % (pn, r, d))
                        if r == 'unsat' and pn in range_open:
                            r_, _ = check(ctx, h + [lemma], z3.And(OUT < p, OUT >= 0), budgets[-1], self.seed)
                            res_r.queries += 1
                            if r_ == 'unsat':
                                staged_range.add(pn)
                if ronly:
                    continue
                if r != 'unsat':
                    r, d, n, mdl = prove_delta(ctx, h, OUT, RHS, p, spec.deltas, budgets[-1:], self.seed)
                    res_v.queries += n
                    if r == 'sat':
                        bad_models.append(mdl)
                if r == 'unsat':
                    det_v.append('path %d: %d subtraction(s)%s' % (pn, d, ' [with the global lemma (c*R+H)*R = T + K*p]' if lemma is not None else ''))
                else:
                    status_v = 'sat' if r == 'sat' else ('inconclusive' if status_v != 'sat' else status_v)
            # range goals left open by the short budget: settled by the staged proof (which includes 0 <= OUT < p), else
            # retried with the long budget
            for pn_, (h_, OUT_, r_, mdl_) in range_open.items():
                if pn_ in staged_range:
                    continue
                r_, mdl_ = check(ctx, h_, z3.And(OUT_ < p, OUT_ >= 0), budgets[-1], self.seed)
                res_r.queries += 1
                if r_ != 'unsat':
                    status_r = 'sat' if r_ == 'sat' else ('inconclusive' if status_r != 'sat' else status_r)
                    if r_ == 'sat':
                        bad_models.append(mdl_)
            res_r.status, res_v.status = status_r, status_v
            res_r.detail = ('%d paths, all canonical' % npaths) if status_r == 'proved' else 'range goal: ' + status_r
            res_v.detail = ('%d paths: %s' % (npaths, '; '.join(det_v))) if status_v == 'proved' else 'value goal: %s %s' % (status_v, '; '.join(det_v))
            if spec.op != 'div2' and status_v == 'proved':
                res_v.canary = 'specification perturbed by +1: ' + ('not provable (good)' if canary_ok else 'PROVABLE on every path')
                if not canary_ok:
                    res_v.status = 'inconclusive'
                    res_v.detail = 'canary failed: perturbed specification is provable on every path (vacuous encoding)'
            # a refuted goal over the uninterpreted product is only a suspicion: find a REAL counterexample by
            # concretising one operand (exact linear arithmetic) and replaying it natively
            if (res_r.status != 'proved' or res_v.status != 'proved') and search_cex:
                w = self.find_real_cex(spec, budgets[-1])
                if w is not None:
                    res_v.status = 'violated'
                    res_v.model = w
                    res_v.detail = 'native replay reproduces: %s(%s) = %x, expected %x' % (self.native_name(spec), ','.join('%x' % x for x in w['inputs']), w['native'], w['expected'])
                    if res_r.status != 'proved' or w['native'] >= p:
                        res_r.status = 'violated'
                        res_r.model = w
                        res_r.detail = res_v.detail
                else:
                    for r in (res_r, res_v):
                        if r.status == 'sat':
                            r.status = 'inconclusive'
                            r.detail += ' (refuted over the uninterpreted product, but no natively reproducible counterexample found)'
        except Unsupported as e:
            for r in (res_r, res_v):
                r.status = 'inconclusive'
                r.detail = 'IR outside the supported subset / shape: %s' % e
            w = self.find_real_cex(spec, budgets[-1]) if search_cex else None
            if w is not None:
                res_v.status = 'violated'
                res_v.model = w
                res_v.detail = 'native replay reproduces: %s(%s) = %x, expected %x' % (self.native_name(spec), ','.join('%x' % x for x in w['inputs']), w['native'], w['expected'])
        res_r.seconds = res_v.seconds = (time.time() - t0) / 2
        self.results += [res_r, res_v]
        return res_r, res_v

    def candidates(self, spec, fc):
        import random
        p = fc['p']
        rnd = random.Random(7 + self.seed)
        c = [1, RR % p, p - 1, (1 << 64), (1 << 128) % p, (1 << 192) % p, (p - 1) // 2, fc['r2'], 2, RR - p if RR - p < p else 3]
        for _ in range(3):
            c.append(rnd.randrange(p))
        return c

    def targeted_search(self, spec, ctx, info, fc, open_paths, models, cap_s=600):
        """path-targeted witness search on the paths pass 1 left open, WITHOUT re-executing: the second operand(s) are
        replaced by concrete limbs in the path's formulas (z3.substitute), every product M(x, c) is then the linear term
        x*c, and the path condition + negated specification is an EXACT linear-integer query over the first operand(s).
        A model is a real input driving the execution down this (possibly rare) path with a wrong result; it is
        replayed natively before anything is reported."""
        if spec.op not in ('mul', 'sop2', 'sop4'):
            return None
        import random
        p = fc['p']
        nat = self.native_name(spec)
        half = spec.nops // 2
        rnd = random.Random(23 + self.seed)
        cands = []
        for mdl in models:
            if mdl is None:
                continue
            try:
                cands.append([sum(mdl.eval(x, model_completion=True).as_long() << (64 * i) for i, x in enumerate(v)) % p for v in info['ins'][half:]])
            except Exception:
                pass
        cands = cands[:2]
        cands.append([p - 1 - i for i in range(half)])
        cands.append([p - 1 - rnd.randrange(1 << 200) for _ in range(half)])
        cands.append([rnd.randrange(p) for _ in range(half)])
        t_end = time.time() + cap_s
        for c in cands:
            sub = []
            for v, cv in zip(info['ins'][half:], c):
                for i, x in enumerate(v):
                    if not isinstance(x, int):
                        sub.append((x, z3.IntVal((cv >> (64 * i)) & (W - 1))))
            subids = set(x.get_id() for x, _ in sub)
            lin = []
            for (t, x, y) in ctx.mul_apps.values():
                if x.get_id() in subids or y.get_id() in subids:
                    lin.append(z3.substitute(t, *sub) == z3.substitute(x, *sub) * z3.substitute(y, *sub))
            for pn, h, OUT in open_paths:
                if time.time() > t_end:
                    return None
                S = z3.IntVal(0)
                ok_ = True
                for (a, b) in info['prod']:
                    va, vb = [z3.simplify(z3.substitute(z(value(ctx, o_)), *sub)) for o_ in (a, b)]
                    if z3.is_int_value(vb):
                        S = S + va * vb.as_long()
                    elif z3.is_int_value(va):
                        S = S + vb * va.as_long()
                    else:
                        ok_ = False
                if not ok_:
                    return None
                OUTs = z3.substitute(OUT, *sub)
                hs = [z3.substitute(x, *sub) for x in h if isinstance(x, z3.ExprRef)]
                bad = z3.Or((OUTs * RR - S) % p != 0, OUTs >= p, OUTs < 0)
                sv = z3.Solver()
                sv.set('timeout', 15000)
                sv.set('random_seed', self.seed)
                sv.add(*ctx.relevant_back_subst(list(h) + [OUT], sub))
                sv.add(*lin)
                sv.add(*hs)
                sv.add(bad)
                self.targeted_queries = getattr(self, 'targeted_queries', 0) + 1
                if sv.check() != z3.sat:
                    continue
                mdl = sv.model()
                inputs = [sum((x if isinstance(x, int) else mdl.eval(x, model_completion=True).as_long()) << (64 * i) for i, x in enumerate(v)) for v in info['ins'][:half]] + list(c)
                try:
                    got = native_kernel(nat, inputs)
                    want = ref_kernel(nat, inputs, p)
                except Exception:
                    continue
                if got != want:
                    return dict(op=nat, inputs=inputs, native=got, expected=want)
        return None

    def quick_witnesses(self, spec):
        return self.find_real_cex(spec, 0, stage0_only=True)

    def find_real_cex(self, spec, budget_ms, stage0_only=False):
        """with all operands but the first concrete the encoding is EXACT (no uninterpreted product):
        ask the solver for a first operand violating the specification, then replay natively"""
        fc = field_consts(self.consts, spec.which)
        p = fc['p']
        nat = self.native_name(spec)
        # (0) boundary witnesses replayed natively first: the modulus itself and its neighbours, 2^256-1, powers of
        # two, R mod p ... (only inputs admissible for the kernel: below p unless it accepts any 256-bit value)
        import itertools
        top = RR if spec.any256 else p
        bc = [x % top for x in (0, 1, 2, p - 1, p - 2, (p - 1) // 2, (p + 1) // 2, RR % p, (RR * RR) % p, RR - p, 1 << 64, (1 << 64) - 1, 1 << 128, 1 << 192, (1 << 255) % top)]
        if spec.any256:
            bc += [p, p + 1, RR - 1, 2 * p - RR if 2 * p > RR else p + 2]
        bc = sorted(set(bc))
        nops = spec.nops
        combos = itertools.product(bc, repeat=nops) if nops <= 2 else [tuple(bc[(i + j) % len(bc)] for j in range(nops)) for i in range(len(bc))] + [tuple([p - 1 - j for j in range(nops)])]
        try:
            for inputs in combos:
                inputs = list(inputs)
                got = native_kernel(nat, inputs)
                want = ref_kernel(nat, inputs, p)
                if got != want:
                    return dict(op=nat, inputs=inputs, native=got, expected=want)
            # top-heavy operands (all within 2^-8 of the top of the admissible range): the accumulations of the lazy
            # reduction reach their maximum only there (extra carry limb, result needing the maximal number of subtractions)
            import random
            rnd = random.Random(11 + self.seed)
            for _ in range(600):
                inputs = [top - 1 - rnd.randrange(1 << 247) for _ in range(nops)]
                got = native_kernel(nat, inputs)
                want = ref_kernel(nat, inputs, p)
                if got != want:
                    return dict(op=nat, inputs=inputs, native=got, expected=want)
            # quotient-digit corner cases of the Montgomery reduction: operands for which the digit of row i is exactly 0
            # (the working limb is already zero) or 2^64-1 while the upper half is heavy (carries pending between rows).
            # T = sum a_j*b_j must satisfy T = -K*p (mod 2^(64(i+1))) with digit i of K equal to 0 / 2^64-1: the low
            # part of the first operand is solved from that congruence (second operand odd), the rest is random top-heavy
            if spec.op in ('mul', 'sop2', 'sop4', 'decode'):
                half = max(1, nops // 2)
                for trial in range(60):
                    for row in (1, 2, 3):
                        for digit in (0, W - 1):
                            sh = 64 * (row + 1)
                            mod_ = 1 << sh
                            K_ = rnd.randrange(1 << (64 * row)) | (digit << (64 * row))
                            if spec.op == 'decode':
                                bs, as_ = [1], [0]
                            else:
                                bs = [(top - 1 - rnd.randrange(1 << 250)) | 1 for _ in range(half)]
                                as_ = [top - 1 - rnd.randrange(1 << 250) for _ in range(half)]
                            rest = sum(x * y for x, y in zip(as_[1:], bs[1:]))
                            low = ((-K_ * p - rest) * pow(bs[0], -1, mod_)) % mod_
                            hi_ = (top - 1 - rnd.randrange(1 << 250)) >> sh << sh
                            a0 = hi_ | low
                            if a0 >= top:
                                a0 -= mod_
                            if a0 < 0 or bs[0] >= top:
                                continue
                            inputs = ([a0] + as_[1:] + bs) if spec.op != 'decode' else [a0]
                            got = native_kernel(nat, inputs)
                            want = ref_kernel(nat, inputs, p)
                            if got != want:
                                return dict(op=nat, inputs=inputs, native=got, expected=want)
        except Exception as e_:
            if os.environ.get('VERIF_LDEBUG'):
                import traceback
                traceback.print_exc()
        if stage0_only:
            return None
        t_end = time.time() + max(600, budget_ms / 1000.0 * 6)
        fixed_sets = [None]
        if spec.op == 'mul':
            fixed_sets = [{1: c} for c in self.candidates(spec, fc)]
        elif spec.op in ('sop2', 'sop4'):
            T_ = int(spec.op[3])
            cs = self.candidates(spec, fc)
            # boundary-heavy choices first: every second operand at the top of the range (largest accumulations)
            fixed_sets = [{T_ + i: p - 1 - i for i in range(T_)}, {T_ + i: p - 1 for i in range(T_)}, {T_ + i: (p - 1) // 2 + i for i in range(T_)}]
            fixed_sets += [{T_ + i: cs[(j + i) % len(cs)] for i in range(T_)} for j in range(len(cs))]
        elif spec.op == 'square':
            fixed_sets = [None]
        for fs in fixed_sets:
            if time.time() > t_end:
                break
            try:
                ctx, st = Ctx(), State()
                ex = Exec(self.mod, ctx, self.consts, max_paths=256, loop_bound=8)
                info = self.run_kernel(spec, ctx, st, ex, fc, partial=fs)
                hyps = []
                for v in info['ins']:
                    if not spec.any256 and not all(isinstance(x, int) for x in v):
                        hyps.append(z(value(ctx, v)) < p)
                for stp, ret in info['paths']:
                    if isinstance(ret, tuple) and ret and ret[0] == 'unreachable':
                        continue
                    OUT = z(value(ctx, info['out'](stp)))
                    vals = [z(value(ctx, v)) for v in info['ins']]
                    # exact spec when every product has a concrete factor; for square keep M but demand real replay
                    if spec.op in ('mul', 'decode', 'encode', 'square', 'sop2', 'sop4'):
                        S = 0
                        for a, b in info['prod']:
                            for i in range(4):
                                for j in range(4):
                                    S = ctx.add(S, ctx.mulc(ctx.mul(a[i], b[j]), 1 << (64 * (i + j))))
                        goal = z3.And((OUT * RR - z(S)) % p == 0, OUT < p)
                    elif spec.op == 'div2':
                        goal = z3.And(z3.Or(2 * OUT == vals[0], 2 * OUT == vals[0] + p), OUT < p)
                    else:
                        RHS = self.spec_rhs(spec, ctx, info, fc)
                        goal = z3.And((OUT * RR - RHS) % (p * RR) == 0, OUT < p)
                    if time.time() > t_end:
                        break
                    # (1) an input violating the specification on this path (exact arithmetic); (2) failing that, ANY
                    # input driving the execution down this path (path-coverage test generation): a defect confined
                    # to one path - a missing carry case, a wrong comparison at a boundary - is wrong on all of it
                    for goal_, bud in ((goal, min(budget_ms, 20000)), (z3.BoolVal(False), 10000)):
                        r, mdl = check(ctx, hyps + stp.pc, goal_, bud, self.seed)
                        if r != 'sat':
                            continue
                        inputs = []
                        for v in info['ins']:
                            inputs.append(sum((x if isinstance(x, int) else mdl.eval(x, model_completion=True).as_long()) << (64 * i) for i, x in enumerate(v)))
                        got = native_kernel(nat, inputs)
                        want = ref_kernel(nat, inputs, p)
                        if got != want:
                            return dict(op=nat, inputs=inputs, native=got, expected=want)
            except Unsupported:
                continue
        return None


def all_specs():
    S = []
    for w in ('q', 'r'):
        F = 'F' + w
        S.append(KSpec('L-mul-%s' % w, 'mul', w, 'U256::mul with the %s constants (Montgomery product), all a,b < p: out*R = a*b (mod p)' % F, 2))
        S.append(KSpec('L-sq-%s' % w, 'square', w, 'U256::square with the %s constants, all a < p: out*R = a*a (mod p)' % F, 1))
        S.append(KSpec('L-dec-%s' % w, 'decode', w, 'From<%s> for U256 (mul by 1), all a < p: out*R = a (mod p): out is THE canonical value' % F, 1))
        S.append(KSpec('L-enc-%s' % w, 'encode', w, '%s::new_mul_factor (mul by R^2), ALL 256-bit a: out = a*R (mod p)' % F, 1, any256=True))
        for op, n in (('add', 2), ('sub', 2), ('neg', 1), ('double', 1)):
            S.append(KSpec('L-lin-%s-%s' % (op, w), op, w, '%s %s on the RELEASE IR equals the integer operation mod p (other build profile of the Kani k_lin harness)' % (F, op), n, deltas=(0, 1, 2)))
    S.append(KSpec('L-lin-div2-q', 'div2', 'q', 'Fq::div2 on the release IR: 2*out = a (mod q)', 1))
    S.append(KSpec('L-sop2', 'sop2', 'q', 'Fq::sum_of_products::<2> (Fq2 multiplier), all a_i,b_i < q: out*R = sum a_i*b_i (mod q), every carry class of the lazy reduction', 4, deltas=(0, 1, 2, 3)))
    S.append(KSpec('L-sop4', 'sop4', 'q', 'Fq::sum_of_products::<4> (Fq4 multiplier), all a_i,b_i < q: out*R = sum a_i*b_i (mod q)', 8, deltas=(0, 1, 2, 3, 4)))
    return S


def divrem_obligation(module, consts, mname, m, budget_ms=20000, seed=0):
    """L-divrem: one iteration of the long-division loop of U512::divrem from an ARBITRARY remainder r < m:
    r' = 2r + bit_(n-1)(x) - c*m with c in {0,1}, r' < m, counter decremented by one, loop left exactly at 0.
    By Horner's rule (r_n = (x div 2^n) mod m is then inductive) the returned remainder is x mod m."""
    import skeleton
    res = Result('L-divrem-' + mname, 'U512::divrem loop step (modulus %s): r < m  =>  r\' = 2r + bit - c*m, c in {0,1}, r\' < m; counter n -> n-1; exit exactly at 0  [=> remainder = x mod m by Horner]' % mname, [])
    t0 = time.time()
    try:
        fname = module.find('4u5124U5126divrem17h')
        func = module.func(fname)
        heads = skeleton.loop_headers(func)
        if len(heads) != 1:
            raise Unsupported('expected exactly one loop in divrem, found %d' % len(heads))
        h = next(iter(heads))
        phis = skeleton.header_phis(func, h)
        succ = skeleton.cfg(func)
        back = [b for b in func.blocks if h in succ.get(b, []) and func.order.index(b) > func.order.index(h)]
        if len(back) != 1:
            raise Unsupported('expected one back edge')
        back = back[0]
        exits = set(x for x in succ[back] if x != h)
        pre = [pb for pb in phis[0][2] if pb != back]
        if len(pre) != 1:
            raise Unsupported('expected one preheader')
        pre = pre[0]
        counter = [p_ for p_ in phis if p_[1] == 'i64' and not re.match(r'^-?\d+$', p_[2][pre])]
        rl = [p_ for p_ in phis if p_[1] == 'i64' and p_[2][pre] == '0']
        other = [p_ for p_ in phis if p_ not in counter and p_ not in rl]
        if len(counter) != 1 or len(rl) != 4:
            raise Unsupported('header phis: expected one counter and four remainder limbs, found %d / %d' % (len(counter), len(rl)))
        nq = 0
        nseg = 0
        # the pre-header environment (pointers, modulus limbs) from one run of the function entry
        ctx0 = Ctx()
        st0 = State()
        k = Kernel(module, consts)
        out = Ptr(st0.alloc('out'), 0)
        px, x0 = k.operands(ctx0, st0, 'x', n=8)
        pm, _ = k.operands(ctx0, st0, 'm', concrete=limbs(m))
        ex0 = Exec(module, ctx0, consts, max_paths=64, loop_bound=3)
        ex0.never_prune = True
        ent = ex0.run(fname, [out, px, pm], st0, stop_blocks=heads)
        arr = [(s_, r_) for s_, r_ in ent if isinstance(r_, tuple) and r_ and r_[0] == 'stop']
        if not arr:
            raise Unsupported('loop header not reached from the entry')
        # entry obligations: remainder limbs start at 0 on every entry edge (from the phi table)
        for st_, (_, hb, env_, prev_) in arr:
            for p_ in rl:
                if p_[2][prev_] != '0':
                    raise Unsupported('remainder does not start at zero')
        st_e, (_, _, env_e, prev_e) = arr[0]
        bad = []
        for n in range(512, 0, -1):
            ctx = Ctx()
            st = State()
            # rebuild memory with fresh symbolic x and quotient storage
            k = Kernel(module, consts)
            xs = [ctx.var('x%d' % i, 0, W - 1) for i in range(8)]
            for obj, cells in st_e.mem.items():
                st.mem[obj] = {}
                for off, (v, nb) in cells.items():
                    st.mem[obj][off] = (v if isinstance(v, int) else ctx.fresh('hm', 0, (1 << (8 * nb)) - 1), nb)
            for i in range(8):
                st.mem[px.obj][8 * i] = (xs[i], 8)
            st.nobj = st_e.nobj
            env = {}
            for kk, vv in env_e.items():
                env[kk] = vv if isinstance(vv, (int, bool, Ptr)) else None
            env = {kk: vv for kk, vv in env.items() if vv is not None}
            r = [ctx.var('r%d' % i, 0, W - 1) for i in range(4)]
            env[counter[0][0]] = n
            for p_, v in zip(rl, r):
                env[p_[0]] = v
            for p_ in other:
                env[p_[0]] = ctx.var('f_' + re.sub(r'\W', '_', p_[0]), 0, 1) if p_[1] == 'i64' else None
            ex = Exec(module, ctx, consts, max_paths=256, loop_bound=3)
            ex.never_prune = True
            ex.havoc_bitops = True
            outs = ex.run(fname, None, st, start_block=h, env=env, stop_blocks=set(heads) | exits, skip_phis=True)
            R = z(value(ctx, r))
            hyps = [R < m]
            limb, sh = (n - 1) // 64, (n - 1) % 64
            bit = ctx.mod(ctx.div(xs[limb], 1 << sh) if sh else xs[limb], 2)
            nseg += 1
            for st2, ret in outs:
                if not (isinstance(ret, tuple) and ret and ret[0] == 'stop'):
                    bad.append((n, 'loop body returns or traps'))
                    continue
                _, blk, env2, prev2 = ret
                # values the header phis would take from the back edge
                try:
                    rn = [ex.val(p_[2][back], 'i64', env2) for p_ in rl]
                    cn = ex.val(counter[0][2][back], 'i64', env2)
                except Unsupported as e:
                    bad.append((n, str(e)))
                    continue
                if cn != n - 1 or (blk in exits) != (n - 1 == 0):
                    bad.append((n, 'counter %s after step, stopped at %s' % (cn, blk)))
                    continue
                Rn = z(value(ctx, rn))
                goal = z3.And(z3.Or(Rn == 2 * R + z(bit), Rn == 2 * R + z(bit) - m), Rn < m, Rn >= 0)
                s_ = z3.Solver()
                s_.set('timeout', budget_ms)
                s_.add(*ctx.axioms)
                s_.add(*hyps)
                s_.add(*st2.pc)
                s_.add(z3.Not(goal))
                nq += 1
                rr_ = s_.check()
                if rr_ != z3.unsat:
                    w = None
                    if rr_ == z3.sat:
                        md = s_.model()
                        w = dict(n=n, r='%x' % sum(md.eval(v, model_completion=True).as_long() << (64 * i) for i, v in enumerate(r)),
                                 x='%x' % sum(md.eval(v, model_completion=True).as_long() << (64 * i) for i, v in enumerate(xs)))
                    bad.append((n, str(rr_), w))
        res.queries = nq
        res.functions = [fname]
        res.vacuity = '%d loop steps (n = 512..1), %d queries; entry: remainder starts at 0 on every entry edge' % (nseg, nq)
        if bad:
            refuted = [b for b in bad if len(b) > 2 and b[1] == 'sat']
            res.status = 'sat' if refuted else 'inconclusive'
            res.detail = '%d step obligations not discharged, e.g. %s' % (len(bad), bad[0])
            res.model = refuted[0][2] if refuted else None
        else:
            res.status = 'proved'
            res.detail = 'all %d step obligations discharged for every bit position' % nq
    except Unsupported as e:
        res.status = 'inconclusive'
        res.detail = 'IR outside the supported subset / shape: %s' % e
    res.seconds = time.time() - t0
    return res
