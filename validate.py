#!/usr/bin/env python3
"""validate MANIFEST.json and evidence/*.json against the schemas in /root/.vp (run with python3-vt)"""
import json, glob, sys, jsonschema
ok = True
m = json.load(open('/verif/MANIFEST.json'))
jsonschema.validate(m, json.load(open('/root/.vp/MANIFEST.schema.json')))
es = json.load(open('/root/.vp/EVIDENCE.schema.json'))
ids = [c['property_id'] for c in m['checks']]
for c in ids:
    p = '/verif/evidence/%s.json' % c
    try:
        e = json.load(open(p))
        jsonschema.validate(e, es)
        cov = e['coverage']
        flag = []
        if cov['obligations'] != cov['discharged']:
            flag.append('discharged %d != obligations %d' % (cov['discharged'], cov['obligations']))
        if e.get('violations'):
            flag.append('violations %d' % e['violations'])
        if cov.get('inconclusive'):
            flag.append('inconclusive %s' % cov['inconclusive'])
        print(c, e['tier'], 'wall %.0fs' % e['wall_s'], 'obl %d' % cov['obligations'], 'nontrivial %d' % cov['distinct_nontrivial'], 'tree', cov.get('tree_hash'), 'FLAG ' + '; '.join(flag) if flag else 'ok')
        ok = ok and not flag
    except Exception as ex:
        print(c, 'INVALID', str(ex)[:200])
        ok = False
sys.exit(0 if ok else 1)
