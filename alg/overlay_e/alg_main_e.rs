fn main() {
    sm9_core::verif_alg_e::main();
}
