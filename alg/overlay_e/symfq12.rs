//! Engine A, overlay variant E: an exponent-tracking stand-in for `fields::fq12::Fq12`. Every value of a
//! multiplicative chain over a base element x is x^e; the stand-in records Mul / Sq / Inv / Frob(k) / One so that
//! the checker can fold the exponent exactly. The real pairings.rs (Fq12::pow(u128), both final exponentiations)
//! compiles UNCHANGED against it and runs its real loops over its real constants.
use crate::fields::{fp::Fq, FieldElement, Fq2, Fq4};
use crate::u256::U256;
use crate::{One, Zero};
use alloc::{format, string::String, vec::Vec};
use core::ops::{Add, AddAssign, Mul, MulAssign, Neg, Sub, SubAssign};
use rand::Rng;
extern crate std;
use std::sync::Mutex;

#[derive(Clone, Debug)]
pub enum ENode {
    Base(u32),
    One,
    Mul(u32, u32),
    Sq(u32),
    Inv(u32),
    Frob(u32, u32), // (k, a): a^(q^k)
}
pub static ARENA: Mutex<Vec<ENode>> = Mutex::new(Vec::new());
const MAGIC: u64 = 0x5359_4D46_5131_3245;

#[derive(Copy, Clone, Debug)]
#[repr(C)]
pub struct Fq12 {
    pub(crate) c0: Fq4,
    pub(crate) c1: Fq4,
    pub(crate) c2: Fq4,
}
fn mk(n: ENode) -> Fq12 {
    let mut a = ARENA.lock().unwrap();
    a.push(n);
    let id = (a.len() - 1) as u64;
    let tag = Fq(U256::from([id, MAGIC, 0, 0]));
    Fq12 { c0: Fq4::new(Fq2::new(tag, Fq::zero()), Fq2::zero()), c1: Fq4::zero(), c2: Fq4::zero() }
}
pub fn id_of(x: &Fq12) -> u32 {
    let r = x.c0.c0.real().raw();
    assert!(r[1] == MAGIC, "EXP-TRACK: a value that is not part of a multiplicative chain was used");
    r[0] as u32
}
pub fn base(i: u32) -> Fq12 {
    mk(ENode::Base(i))
}
pub fn dump() -> String {
    let a = ARENA.lock().unwrap();
    let mut parts: Vec<String> = Vec::new();
    for (i, n) in a.iter().enumerate() {
        parts.push(match n {
            ENode::Base(b) => format!("[{},\"base\",{}]", i, b),
            ENode::One => format!("[{},\"one\"]", i),
            ENode::Mul(x, y) => format!("[{},\"mul\",{},{}]", i, x, y),
            ENode::Sq(x) => format!("[{},\"sq\",{}]", i, x),
            ENode::Inv(x) => format!("[{},\"inv\",{}]", i, x),
            ENode::Frob(k, x) => format!("[{},\"frob\",{},{}]", i, k, x),
        });
    }
    format!("[{}]", parts.join(","))
}
impl PartialEq for Fq12 {
    fn eq(&self, o: &Fq12) -> bool {
        id_of(self) == id_of(o)
    }
}
impl Eq for Fq12 {}
impl Fq12 {
    pub fn new(c0: Fq4, c1: Fq4, c2: Fq4) -> Self {
        Fq12 { c0, c1, c2 }
    }
    pub fn mul_by_nonresidue(&self) -> Self {
        panic!("EXP-TRACK: not a multiplicative-chain operation")
    }
    pub fn scale(&self, _by: &Fq4) -> Self {
        panic!("EXP-TRACK: not a multiplicative-chain operation")
    }
    pub fn frobenius_map(&self, power: usize) -> Self {
        match power {
            1 | 2 | 3 | 6 => mk(ENode::Frob(power as u32, id_of(self))),
            _ => unimplemented!(),
        }
    }
    pub fn to_slice(self) -> [u8; 384] {
        [0u8; 384]
    }
    pub fn mul_015(&self, b: &Fq12) -> Fq12 {
        mk(ENode::Mul(id_of(self), id_of(b)))
    }
    fn mul_inplace(&self, other: &Fq12) -> Fq12 {
        mk(ENode::Mul(id_of(self), id_of(other)))
    }
    fn neg_inplace(&self) -> Fq12 {
        panic!("EXP-TRACK: negation in a multiplicative chain")
    }
    fn add_inplace(&self, _rhs: &Fq12) -> Fq12 {
        panic!("EXP-TRACK: addition in a multiplicative chain")
    }
    fn sub_inplace(&self, _rhs: &Fq12) -> Fq12 {
        panic!("EXP-TRACK: subtraction in a multiplicative chain")
    }
}
impl_binops_additive!(Fq12, Fq12);
impl_binops_multiplicative!(Fq12, Fq12);
impl_binops_negative!(Fq12);
impl Zero for Fq12 {
    fn zero() -> Self {
        // only used to initialise values that are overwritten field by field (line functions): not a chain value
        Fq12 { c0: Fq4::zero(), c1: Fq4::zero(), c2: Fq4::zero() }
    }
    fn is_zero(&self) -> bool {
        false
    }
}
impl One for Fq12 {
    fn one() -> Self {
        mk(ENode::One)
    }
}
impl FieldElement for Fq12 {
    fn random<R: Rng>(_rng: &mut R) -> Self {
        unimplemented!()
    }
    fn double(&self) -> Self {
        panic!("EXP-TRACK: doubling in a multiplicative chain")
    }
    fn triple(&self) -> Self {
        panic!("EXP-TRACK: tripling in a multiplicative chain")
    }
    fn squared(&self) -> Self {
        mk(ENode::Sq(id_of(self)))
    }
    fn inverse(&self) -> Option<Self> {
        Some(mk(ENode::Inv(id_of(self))))
    }
}
