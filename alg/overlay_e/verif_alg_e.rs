//! driver for overlay variant E: runs the real exponentiation chains of pairings.rs on x = Base(0)
extern crate std;
use crate::fields::symfq12::{base, dump, id_of};
use crate::fields::{FieldElement, Fr};
use crate::pairings::verif_hooks as ph;
use std::{println, string::String, vec::Vec};

pub fn main() {
    let args: Vec<String> = std::env::args().collect();
    let x = base(0);
    let mut outs: Vec<(String, u32)> = Vec::new();
    for (name, e) in [("pow_A2", ph::A2), ("pow_A3", ph::A3), ("pow_S", ph::S), ("pow_NINE", ph::NINE), ("pow_0", 0u128), ("pow_1", 1u128), ("pow_2", 2u128), ("pow_6", 6u128), ("pow_1000003", 1000003u128)] {
        outs.push((String::from(name), id_of(&ph::fq12_pow_u128(&x, e))));
    }
    outs.push((String::from("first_chunk"), id_of(&ph::final_exponentiation_first_chunk(&x).unwrap())));
    outs.push((String::from("last_chunk"), id_of(&ph::final_exponentiation_last_chunk(&x))));
    outs.push((String::from("final_exponentiation"), id_of(&ph::final_exponentiation(&x).unwrap())));
    outs.push((String::from("final_exp_last_chunk"), id_of(&ph::final_exp_last_chunk(&x))));
    outs.push((String::from("final_exp"), id_of(&ph::final_exp(&x).unwrap())));
    // the generic (Gt) pow with concrete scalars through the real bit iterator
    for k in ["0", "1", "2", "5", "18446744073709551616", "340282366920938463463374607431768211461"] {
        outs.push((std::format!("gtpow_{}", k), id_of(&FieldElement::pow(&x, Fr::from_str(k).unwrap()))));
    }
    let consts = std::format!("{{\"A2\":\"{}\",\"A3\":\"{}\",\"S\":\"{}\",\"NINE\":\"{}\",\"LOOP_N\":\"{}\"}}", ph::A2, ph::A3, ph::S, ph::NINE, ph::LOOP_N);
    let o: Vec<String> = outs.iter().map(|(n, i)| std::format!("[\"{}\",{}]", n, i)).collect();
    println!("{{\"outs\":[{}],\"consts\":{},\"loop_count\":{:?},\"dag\":{}}}", o.join(","), consts, ph::LOOP_COUNT.to_vec(), dump());
    let _ = args;
}
