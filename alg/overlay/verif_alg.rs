//! Engine A driver (overlay only): enumerates every path of the real tower / group / pairing code
//! over symbolic base-field inputs and prints one JSON object per leaf.
extern crate std;
use crate::fields::symfq::{self, dump, konst, start_run, take_log, var, Fq as SFq};
use crate::fields::{FieldElement, Fq12, Fq2, Fq4};
use crate::groups::{AffineG, G1Params, G2Params, GroupElement, GroupParams, G};
use crate::pairings::verif_hooks as ph;
use crate::{One, Zero};
use std::{format, println, string::String, string::ToString, sync::Mutex, vec, vec::Vec};

static LAST_PANIC: Mutex<String> = Mutex::new(String::new());

fn explore<F: Fn() -> Vec<u32> + std::panic::RefUnwindSafe>(task: &str, fork_limit: usize, max_leaves: usize, f: F) {
    explore2(task, fork_limit, 0, max_leaves, f)
}
/// decisions with index < head or among the last `tail` of a run are enumerated both ways; the others are
/// followed along their default (generic: "not equal") outcome only
static START_PREFIX: Mutex<Vec<bool>> = Mutex::new(Vec::new());
fn explore2<F: Fn() -> Vec<u32> + std::panic::RefUnwindSafe>(task: &str, fork_limit: usize, tail: usize, max_leaves: usize, f: F) {
    let sp = START_PREFIX.lock().map(|g| g.clone()).unwrap_or_default();
    let mut work: Vec<Vec<bool>> = vec![sp];
    let mut leaves = 0usize;
    while let Some(prefix) = work.pop() {
        start_run(&prefix);
        let r = std::panic::catch_unwind(|| f());
        let log = take_log();
        let mut roots: Vec<u32> = Vec::new();
        for d in log.iter() {
            roots.push(d.a);
            roots.push(d.b);
        }
        let pc: Vec<String> = log.iter().map(|d| format!("[\"{}\",{},{},{}]", d.kind, d.a, d.b, d.out)).collect();
        match r {
            Ok(outs) => {
                roots.extend(outs.iter());
                let o: Vec<String> = outs.iter().map(|x| x.to_string()).collect();
                println!("{{\"task\":\"{}\",\"pc\":[{}],\"out\":[{}],\"dag\":{}}}", task, pc.join(","), o.join(","), dump(&roots));
            }
            Err(_) => {
                let m = LAST_PANIC.lock().map(|g| g.clone()).unwrap_or_default();
                println!("{{\"task\":\"{}\",\"pc\":[{}],\"panic\":{:?},\"dag\":{}}}", task, pc.join(","), m, dump(&roots));
            }
        }
        leaves += 1;
        if leaves >= max_leaves {
            println!("{{\"task\":\"{}\",\"truncated\":true}}", task);
            break;
        }
        for i in prefix.len()..log.len() {
            if i >= fork_limit && i + tail < log.len() {
                continue;
            }
            let mut np: Vec<bool> = log[..i].iter().map(|x| x.out).collect();
            np.push(!log[i].out);
            work.push(np);
        }
    }
    std::eprintln!("task {} leaves {}", task, leaves);
}

fn v(n: &str) -> SFq {
    var(n)
}
fn f2(n: &str) -> Fq2 {
    Fq2::new(v(&format!("{}0", n)), v(&format!("{}1", n)))
}
fn f4(n: &str) -> Fq4 {
    Fq4::new(f2(&format!("{}0", n)), f2(&format!("{}1", n)))
}
fn f12(n: &str) -> Fq12 {
    Fq12::new(f4(&format!("{}0", n)), f4(&format!("{}1", n)), f4(&format!("{}2", n)))
}
fn o1(x: &SFq) -> Vec<u32> {
    vec![x.0]
}
fn o2(x: &Fq2) -> Vec<u32> {
    vec![x.real().0, x.imaginary().0]
}
fn o4(x: &Fq4) -> Vec<u32> {
    let mut r = o2(&x.c0);
    r.extend(o2(&x.c1));
    r
}
fn o12(x: &Fq12) -> Vec<u32> {
    let mut r = o4(&x.c0);
    r.extend(o4(&x.c1));
    r.extend(o4(&x.c2));
    r
}
fn cat(a: Vec<u32>, b: Vec<u32>) -> Vec<u32> {
    let mut a = a;
    a.extend(b);
    a
}
const NONE: u32 = u32::MAX;
fn opt<T>(o: Option<T>, n: usize, f: impl Fn(&T) -> Vec<u32>) -> Vec<u32> {
    match o {
        Some(x) => cat(vec![1], f(&x)),
        None => cat(vec![0], vec![NONE; n]),
    }
}
// the constant 1/0 flags are encoded as node ids of the constants one / zero
fn flag(b: bool) -> u32 {
    if b {
        <SFq as One>::one().0
    } else {
        <SFq as Zero>::zero().0
    }
}
fn optf<T>(o: Option<T>, n: usize, f: impl Fn(&T) -> Vec<u32>) -> Vec<u32> {
    match o {
        Some(x) => cat(vec![flag(true)], f(&x)),
        None => cat(vec![flag(false)], vec![flag(false); n]),
    }
}

trait Coords: FieldElement {
    fn mkv(n: &str) -> Self;
    fn outs(&self) -> Vec<u32>;
    const N: usize;
}
impl Coords for SFq {
    fn mkv(n: &str) -> Self {
        v(n)
    }
    fn outs(&self) -> Vec<u32> {
        o1(self)
    }
    const N: usize = 1;
}
impl Coords for Fq2 {
    fn mkv(n: &str) -> Self {
        f2(n)
    }
    fn outs(&self) -> Vec<u32> {
        o2(self)
    }
    const N: usize = 2;
}
fn gpt<P: GroupParams>(n: &str, mode: u8) -> G<P>
where
    P::Base: Coords,
{
    // mode b'a': z = 1 (constant); b'j': z symbolic; b'o': z = 0 with x, y free (non-canonical identity)
    let z = match mode {
        b'a' => P::Base::one(),
        b'o' => P::Base::zero(),
        _ => P::Base::mkv(&format!("Z{}", n)),
    };
    G::new(P::Base::mkv(&format!("X{}", n)), P::Base::mkv(&format!("Y{}", n)), z)
}
fn og<P: GroupParams>(g: &G<P>) -> Vec<u32>
where
    P::Base: Coords,
{
    cat(cat(g.x().outs(), g.y().outs()), g.z().outs())
}
fn group_tasks<P: GroupParams + std::panic::RefUnwindSafe>(pfx: &str, only: &str)
where
    P::Base: Coords,
{
    let want = |t: &str| only.is_empty() || only == t || (only.ends_with('*') && t.starts_with(&only[..only.len() - 1]));
    for m in ["aa", "aj", "ja", "jj", "oj", "jo", "oa", "ao", "oo"] {
        let t = format!("{}_add_{}", pfx, m);
        if want(&t) {
            explore(&t, 64, 4000, || og::<P>(&(gpt::<P>("1", m.as_bytes()[0]) + gpt::<P>("2", m.as_bytes()[1]))));
        }
        let t = format!("{}_sub_{}", pfx, m);
        if want(&t) {
            explore(&t, 64, 4000, || og::<P>(&(gpt::<P>("1", m.as_bytes()[0]) - gpt::<P>("2", m.as_bytes()[1]))));
        }
        let t = format!("{}_eq_{}", pfx, m);
        if want(&t) {
            explore(&t, 64, 4000, || vec![flag(gpt::<P>("1", m.as_bytes()[0]) == gpt::<P>("2", m.as_bytes()[1]))]);
        }
        let t = format!("{}_addassign_{}", pfx, m);
        if want(&t) {
            explore(&t, 64, 4000, || {
                let mut a = gpt::<P>("1", m.as_bytes()[0]);
                a += gpt::<P>("2", m.as_bytes()[1]);
                let mut b = gpt::<P>("1", m.as_bytes()[0]);
                b += &gpt::<P>("2", m.as_bytes()[1]);
                cat(og::<P>(&a), og::<P>(&b))
            });
        }
    }
    for m in ["a", "j", "o"] {
        let c = m.as_bytes()[0];
        let t = format!("{}_double_{}", pfx, m);
        if want(&t) {
            explore(&t, 64, 4000, || og::<P>(&gpt::<P>("1", c).double()));
        }
        let t = format!("{}_neg_{}", pfx, m);
        if want(&t) {
            explore(&t, 64, 4000, || og::<P>(&(-gpt::<P>("1", c))));
        }
        let t = format!("{}_toaffine_{}", pfx, m);
        if want(&t) {
            explore(&t, 64, 4000, || optf(gpt::<P>("1", c).to_affine(), 2 * P::Base::N, |a| cat(a.x().outs(), a.y().outs())));
        }
        let t = format!("{}_iszero_{}", pfx, m);
        if want(&t) {
            explore(&t, 64, 4000, || vec![flag(gpt::<P>("1", c).is_zero())]);
        }
    }
    let t = format!("{}_affine_new", pfx);
    if want(&t) {
        // the curve-equation decisions are enumerated; the subgroup test (G2) is followed along its generic
        // path. Outputs: flag, kind (0 ok / 1 NotOnCurve / 2 NotInSubgroup as multiples of one), the
        // coordinates carried by Ok, and - computed by this driver with the (separately verified) group
        // operations - the coordinates of (p * (r-1)) + p, so that the checker can identify the decided nodes.
        // directed exploration: (a) curve equation false in each component, (b) curve equation true and the
        // subgroup test along its generic path ending "not the identity", (c) the same path with the final
        // comparisons of z((r-1)p + p) against zero decided true
        let body = || {
            let (x, y) = (P::Base::mkv("X1"), P::Base::mkv("Y1"));
            let r = AffineG::<P>::new(x, y);
            let p: G<P> = G::new(x, y, P::Base::one());
            let refz = if P::check_order() { ((p * (-crate::fields::Fr::one())) + p).z().outs() } else { vec![flag(false); P::Base::N] };
            let head = match r {
                Ok(a) => cat(vec![flag(true), flag(false)], cat(a.x().outs(), a.y().outs())),
                Err(crate::groups::Error::NotOnCurve) => cat(vec![flag(false), flag(false)], vec![flag(false); 2 * P::Base::N]),
                Err(crate::groups::Error::NotInSubgroup) => cat(vec![flag(false), flag(true)], vec![flag(false); 2 * P::Base::N]),
            };
            cat(head, refz)
        };
        let n = P::Base::N;
        let mut prefixes: Vec<Vec<bool>> = Vec::new();
        for k in 0..=n {
            let mut p = vec![true; k];
            if k < n {
                p.push(false);
            }
            prefixes.push(p);
        }
        for pf in prefixes.iter() {
            *START_PREFIX.lock().unwrap() = pf.clone();
            explore(&t, 0, 1, &body);
        }
        if P::check_order() {
            // (c): take the generic path's log and decide the comparisons "z-coordinate == 0" true
            *START_PREFIX.lock().unwrap() = vec![true; n];
            start_run(&vec![true; n]);
            let outs = body();
            let log = take_log();
            let refz: Vec<u32> = outs[2 + 2 * n..].to_vec();
            let zero = flag(false);
            let mut pf: Vec<bool> = Vec::new();
            let mut hit = 0;
            for d in log.iter() {
                let is_ref = (refz.contains(&d.a) && d.b == zero) || (refz.contains(&d.b) && d.a == zero);
                // only the LAST comparison block (the final `!= G::zero()`) is flipped
                pf.push(d.out);
                if is_ref {
                    hit += 1;
                }
            }
            // flip from the first final-comparison decision on: find the last decisions that mention refz
            let mut idxs: Vec<usize> = Vec::new();
            for (i, d) in log.iter().enumerate() {
                if (refz.contains(&d.a) && d.b == zero) || (refz.contains(&d.b) && d.a == zero) {
                    idxs.push(i);
                }
            }
            let _ = hit;
            if let Some(&first) = idxs.last() {
                // decisions are memoised per node pair, so each refz component appears once; force them all true
                let mut p2: Vec<bool> = log[..first].iter().map(|d| d.out).collect();
                p2.push(true);
                for _ in 0..n {
                    p2.push(true);
                }
                *START_PREFIX.lock().unwrap() = p2;
                explore(&t, 0, 1, &body);
            }
        }
        *START_PREFIX.lock().unwrap() = Vec::new();
    }
    let t = format!("{}_zero_one", pfx);
    if want(&t) {
        explore(&t, 8, 8, || {
            // identity, generator, curve coefficient, and the scalar used by the subgroup test (-1 in Fr,
            // i.e. r-1; it is below q, so it can be exported as a base-field constant)
            let m1 = SFq::from_slice(&(-crate::fields::Fr::one()).to_slice()).unwrap();
            cat(cat(cat(og::<P>(&G::<P>::zero()), og::<P>(&P::one())), P::coeff_b().outs()), vec![m1.0])
        });
    }
}

fn g2pt(n: &str, mode: u8) -> crate::groups::G2 {
    gpt::<G2Params>(n, mode)
}
fn g1pt(n: &str, mode: u8) -> crate::groups::G1 {
    gpt::<G1Params>(n, mode)
}
fn o3f2(c: &(Fq2, Fq2, Fq2)) -> Vec<u32> {
    cat(cat(o2(&c.0), o2(&c.1)), o2(&c.2))
}

pub fn main() {
    std::panic::set_hook(std::boxed::Box::new(|info| {
        let m = if let Some(s) = info.payload().downcast_ref::<&str>() {
            s.to_string()
        } else if let Some(s) = info.payload().downcast_ref::<String>() {
            s.clone()
        } else {
            String::from("panic")
        };
        let loc = info.location().map(|l| format!(" at {}:{}", l.file(), l.line())).unwrap_or_default();
        if let Ok(mut g) = LAST_PANIC.lock() {
            *g = format!("{}{}", m, loc);
        }
    }));
    let args: Vec<String> = std::env::args().collect();
    let fam = args.get(1).cloned().unwrap_or_default();
    let only = args.get(2).cloned().unwrap_or_default();
    let want = |t: &str| only.is_empty() || only == t || (only.ends_with('*') && t.starts_with(&only[..only.len() - 1]));
    match fam.as_str() {
        "fq2" => {
            macro_rules! t {
                ($n:expr, $e:expr) => {
                    if want($n) {
                        explore($n, 64, 4000, || $e);
                    }
                };
            }
            t!("fq2_mul", o2(&(f2("x") * f2("y"))));
            t!("fq2_mul_forms", {
                let (x, y) = (f2("x"), f2("y"));
                let mut z = x;
                z *= y;
                let mut w = x;
                w *= &y;
                cat(cat(o2(&(&x * &y)), o2(&(x * &y))), cat(o2(&z), o2(&w)))
            });
            t!("fq2_sq", o2(&f2("x").squared()));
            t!("fq2_inv", optf(f2("x").inverse(), 2, o2));
            t!("fq2_scale", o2(&f2("x").scale(&v("s"))));
            t!("fq2_mulnr", o2(&f2("x").mul_by_nonresidue()));
            t!("fq2_conj", o2(&f2("x").unitary_inverse()));
            t!("fq2_div2", o2(&f2("x").div2()));
            t!("fq2_add", o2(&(f2("x") + f2("y"))));
            t!("fq2_sub", o2(&(f2("x") - f2("y"))));
            t!("fq2_neg", o2(&(-f2("x"))));
            t!("fq2_double", o2(&f2("x").double()));
            t!("fq2_triple", o2(&f2("x").triple()));
            t!("fq2_i_one_zero", cat(cat(o2(&Fq2::i()), o2(&Fq2::one())), o2(&Fq2::zero())));
            t!("fq2_iszero", vec![flag(f2("x").is_zero())]);
            t!("fq2_sqrt", optf(f2("x").sqrt(), 2, o2));
            // completeness families: the input is given as a square (c + d u)^2
            t!("fq2_sqrt_of_square", {
                let c = f2("c");
                optf(c.squared().sqrt(), 2, o2)
            });
            t!("fq2_sqrt_of_real", optf(Fq2::new(v("a"), SFq::zero()).sqrt(), 2, o2));
            t!("fq2_sqrt_of_imag", optf(Fq2::new(SFq::zero(), v("b")).sqrt(), 2, o2));
        }
        "fq4" => {
            macro_rules! t {
                ($n:expr, $e:expr) => {
                    if want($n) {
                        explore($n, 64, 4000, || $e);
                    }
                };
            }
            t!("fq4_mul", o4(&(f4("x") * f4("y"))));
            t!("fq4_mul1", o4(&f4("x").mul_1(&Fq4::new(Fq2::zero(), f2("y1")))));
            t!("fq4_sq", o4(&f4("x").squared()));
            t!("fq4_inv", optf(f4("x").inverse(), 4, o4));
            t!("fq4_scale", o4(&f4("x").scale(&f2("s"))));
            t!("fq4_scale_fq", o4(&f4("x").scale_fq(&v("s"))));
            t!("fq4_mulnr", o4(&f4("x").mul_by_nonresidue()));
            t!("fq4_conj", o4(&f4("x").unitary_inverse()));
            t!("fq4_add", o4(&(f4("x") + f4("y"))));
            t!("fq4_sub", o4(&(f4("x") - f4("y"))));
            t!("fq4_neg", o4(&(-f4("x"))));
            t!("fq4_double", o4(&f4("x").double()));
            t!("fq4_triple", o4(&f4("x").triple()));
            for k in [10usize, 11, 12, 21, 22, 30, 31, 32] {
                let n = format!("fq4_frob_{}", k);
                if want(&n) {
                    explore(&n, 64, 4000, || o4(&f4("x").frobenius_map(k)));
                }
            }
            t!("fq4_one_zero", cat(o4(&Fq4::one()), o4(&Fq4::zero())));
        }
        "fq12" => {
            macro_rules! t {
                ($n:expr, $e:expr) => {
                    if want($n) {
                        explore($n, 64, 4000, || $e);
                    }
                };
            }
            t!("fq12_mul", o12(&(f12("x") * f12("y"))));
            t!("fq12_mul015", o12(&f12("x").mul_015(&Fq12::new(f4("y0"), Fq4::zero(), Fq4::new(Fq2::zero(), f2("y21"))))));
            t!("fq12_sq", o12(&f12("x").squared()));
            t!("fq12_scale", o12(&f12("x").scale(&f4("s"))));
            t!("fq12_mulnr", o12(&f12("x").mul_by_nonresidue()));
            t!("fq12_add", o12(&(f12("x") + f12("y"))));
            t!("fq12_sub", o12(&(f12("x") - f12("y"))));
            t!("fq12_neg", o12(&(-f12("x"))));
            for k in [1usize, 2, 3, 6] {
                let n = format!("fq12_frob_{}", k);
                if want(&n) {
                    explore(&n, 64, 4000, || o12(&f12("x").frobenius_map(k)));
                }
            }
            t!("fq12_one_zero", cat(o12(&Fq12::one()), o12(&Fq12::zero())));
            t!("fq12_inv", optf(f12("x").inverse(), 12, o12));
            // Gt-level small powers through the generic pow with concrete scalars
            for e in ["0", "1", "2", "3", "5"] {
                let n = format!("fq12_pow_{}", e);
                if want(&n) {
                    explore(&n, 64, 64, || o12(&FieldElement::pow(&f12("x"), crate::fields::Fr::from_str(e).unwrap())));
                }
            }
        }
        "gabs" => abs_tasks(&only),
        "g1" => group_tasks::<G1Params>("g1", &only),
        "g2" => group_tasks::<G2Params>("g2", &only),
        "pair" => {
            macro_rules! t {
                ($n:expr, $e:expr) => {
                    if want($n) {
                        explore($n, 64, 256, || $e);
                    }
                };
            }
            t!("pair_tangent", {
                let (n, d) = ph::eval_g_tangent(&g2pt("T", b'j'), &g1pt("P", b'a'));
                cat(o12(&n), o12(&d))
            });
            t!("pair_line", {
                let (n, d) = ph::eval_g_line(&g2pt("T", b'j'), &g2pt("S", b'j'), &g1pt("P", b'a'));
                cat(o12(&n), o12(&d))
            });
            t!("pair_g_tangent", {
                let mut t = g2pt("T", b'j');
                let c = ph::g_tangent(&mut t);
                cat(o3f2(&c), og::<G2Params>(&t))
            });
            t!("pair_g_line", {
                let mut t = g2pt("T", b'j');
                let c = ph::g_line(&mut t, &g2pt("S", b'a'));
                cat(o3f2(&c), og::<G2Params>(&t))
            });
            t!("pair_pi1", og::<G2Params>(&ph::point_pi1(&g2pt("T", b'j'))));
            t!("pair_pi2", og::<G2Params>(&ph::point_pi2(&g2pt("T", b'j'))));
            t!("pair_qfrob", {
                let frob = Fq2::new(SFq::new(ph::pi1()).unwrap(), SFq::zero());
                optf(ph::q_power_frobenius(&g2pt("T", b'j'), &frob), 6, og::<G2Params>)
            });
        }
        // representation (non-)interference of the three pairing entry points: mode = representation
        // of P and of Q; the whole Miller loop and final exponentiation run symbolically, only the
        // dependency structure of the result is inspected by the checker
        "wrap" => {
            // outputs: the 12 coordinates of the result, then (allowed dependencies) the affine coordinates of
            // P and Q as computed by the separately verified to_affine (flag + coordinates each)
            fn aff_ids(mp: u8, mq: u8) -> Vec<u32> {
                let a = optf(g1pt("P", mp).to_affine(), 2, |a| cat(o1(a.x()), o1(a.y())));
                let b = optf(g2pt("Q", mq).to_affine(), 4, |a| cat(o2(a.x()), o2(a.y())));
                cat(a, b)
            }
            for m in ["jj", "oj", "jo", "aa", "ja", "aj"] {
                let (mp, mq) = (m.as_bytes()[0], m.as_bytes()[1]);
                let n = format!("wrap_pairing_{}", m);
                if want(&n) {
                    explore(&n, 0, 1, || {
                        let r = crate::verif_alg::gt_inner(crate::pairing(crate::G1(g1pt("P", mp)), crate::verif_alg::pubg2(g2pt("Q", mq))));
                        cat(cat(o12(&r), o12(&r)), aff_ids(mp, mq))
                    });
                }
                let n = format!("wrap_fast_{}", m);
                if want(&n) {
                    explore(&n, 0, 1, || {
                        let (p, q) = (crate::G1(g1pt("P", mp)), crate::verif_alg::pubg2(g2pt("Q", mq)));
                        let r = crate::verif_alg::gt_inner(crate::fast_pairing(p, q));
                        cat(cat(o12(&r), o12(&r)), aff_ids(mp, mq))
                    });
                }
                let n = format!("wrap_prepared_{}", m);
                if want(&n) {
                    explore(&n, 0, 1, || {
                        let (p, q) = (crate::G1(g1pt("P", mp)), crate::verif_alg::pubg2(g2pt("Q", mq)));
                        let prep = crate::G2Prepared::from(q);
                        let a = prep.pairing(&p);
                        let b = prep.pairing(&p);
                        cat(cat(o12(&crate::verif_alg::gt_inner(a)), o12(&crate::verif_alg::gt_inner(b))), aff_ids(mp, mq))
                    });
                }
            }
            for m in ["j", "o", "a"] {
                let c = m.as_bytes()[0];
                let n = format!("wrap_g1_normalize_{}", m);
                if want(&n) {
                    explore(&n, 64, 64, || {
                        use crate::Group;
                        let mut p = crate::G1(g1pt("P", c));
                        p.normalize();
                        og::<G1Params>(&p.0)
                    });
                }
                let n = format!("wrap_g2_normalize_{}", m);
                if want(&n) {
                    explore(&n, 64, 64, || {
                        use crate::Group;
                        let mut p = pubg2(g2pt("Q", c));
                        p.normalize();
                        og::<G2Params>(&g2_inner(p))
                    });
                }
            }
        }
        _ => std::eprintln!("unknown family"),
    }
}
pub fn pubg2(g: crate::groups::G2) -> crate::G2 {
    crate::G2(g)
}
pub fn g2_inner(g: crate::G2) -> crate::groups::G2 {
    g.0
}
pub fn gt_inner(g: crate::Gt) -> Fq12 {
    g.0
}

/// The generic group code over an ABSTRACT commutative ring with a symbolic curve coefficient B:
/// `G<P>` is parametric in `P::Base: FieldElement`, so what is proved for this instantiation holds
/// for G1 (Base = Fq, b = 5) and for G2 (Base = Fq2, b = 5u) alike.
#[derive(Debug)]
pub struct AbsParams;
impl GroupParams for AbsParams {
    type Base = SFq;
    fn name() -> &'static str {
        "Gabs"
    }
    fn one() -> G<Self> {
        G::new(v("GX"), v("GY"), <SFq as One>::one())
    }
    fn coeff_b() -> SFq {
        v("B")
    }
}
pub fn abs_tasks(only: &str) {
    group_tasks::<AbsParams>("gabs", only);
}
