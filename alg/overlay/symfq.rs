//! Engine A overlay: a symbolic stand-in for `fields::fp::Fq`. Values are handles into a global
//! hash-consed expression arena; every `==` / `is_zero` / `sqrt` on a non-constant term is a fork
//! point driven by a decision vector. The rest of the crate (fq2.rs ... lib.rs) compiles UNCHANGED
//! against this type, so running it is symbolic execution of the real source.
use crate::{fields::fp::Fq as CFq, fields::FieldElement, u256::U256, One, Zero};
use alloc::{collections::BTreeMap, format, string::String, vec::Vec};
use core::ops::{Add, AddAssign, Mul, MulAssign, Neg, Sub, SubAssign};
use rand::Rng;
extern crate std;
use std::sync::Mutex;

#[derive(Clone, PartialEq, Eq, PartialOrd, Ord, Debug)]
pub enum Node {
    Var(String),
    Const([u64; 4]), // stored limbs of the REAL Fq constant
    Add(u32, u32),
    Sub(u32, u32),
    Mul(u32, u32),
    Neg(u32),
    Inv(u32),  // witness t with t*x = 1 (only created on the path x != 0)
    Sqrt(u32), // witness s with s*s = x (only created on the path "x is a square")
}

#[derive(Clone, Debug)]
pub struct Decision {
    pub kind: &'static str, // "eq" (a == b), "sq" (a is a square)
    pub a: u32,
    pub b: u32,
    pub out: bool,
}

pub struct Arena {
    pub nodes: Vec<Node>,
    pub index: BTreeMap<Node, u32>,
    pub prefix: Vec<bool>,
    pub log: Vec<Decision>,
    pub nvars: u32,
}
pub static ARENA: Mutex<Arena> = Mutex::new(Arena { nodes: Vec::new(), index: BTreeMap::new(), prefix: Vec::new(), log: Vec::new(), nvars: 0 });

fn lock() -> std::sync::MutexGuard<'static, Arena> {
    match ARENA.lock() {
        Ok(g) => g,
        Err(p) => p.into_inner(),
    }
}
fn craw(c: &CFq) -> [u64; 4] {
    let r = c.raw();
    [r[0], r[1], r[2], r[3]]
}
fn cfq(l: [u64; 4]) -> CFq {
    CFq(U256::from(l))
}
fn mk(n: Node) -> Fq {
    let mut a = lock();
    if let Some(i) = a.index.get(&n) {
        return Fq(*i);
    }
    let i = a.nodes.len() as u32;
    a.nodes.push(n.clone());
    a.index.insert(n, i);
    Fq(i)
}
pub fn node(i: u32) -> Node {
    lock().nodes[i as usize].clone()
}
pub fn as_const(i: u32) -> Option<CFq> {
    if let Node::Const(l) = node(i) {
        Some(cfq(l))
    } else {
        None
    }
}
pub fn var(name: &str) -> Fq {
    mk(Node::Var(String::from(name)))
}
pub fn konst(c: CFq) -> Fq {
    mk(Node::Const(craw(&c)))
}
pub fn start_run(prefix: &[bool]) {
    let mut a = lock();
    a.prefix = prefix.to_vec();
    a.log.clear();
}
pub fn take_log() -> Vec<Decision> {
    lock().log.clone()
}
fn decide(kind: &'static str, a: u32, b: u32) -> bool {
    let mut ar = lock();
    for d in ar.log.iter() {
        if d.kind == kind && ((d.a == a && d.b == b) || (d.a == b && d.b == a)) {
            return d.out;
        }
    }
    let pos = ar.log.len();
    let out = if pos < ar.prefix.len() { ar.prefix[pos] } else { false };
    ar.log.push(Decision { kind, a, b, out });
    out
}
/// JSON dump of the sub-DAG reachable from `roots` (let-bound, never expanded)
pub fn dump(roots: &[u32]) -> String {
    let ar = lock();
    let mut seen: BTreeMap<u32, ()> = BTreeMap::new();
    let mut stack: Vec<u32> = roots.to_vec();
    while let Some(i) = stack.pop() {
        if seen.contains_key(&i) {
            continue;
        }
        seen.insert(i, ());
        match &ar.nodes[i as usize] {
            Node::Add(a, b) | Node::Sub(a, b) | Node::Mul(a, b) => {
                stack.push(*a);
                stack.push(*b);
            }
            Node::Neg(a) | Node::Inv(a) | Node::Sqrt(a) => stack.push(*a),
            _ => {}
        }
    }
    let mut parts: Vec<String> = Vec::new();
    for (i, _) in seen.iter() {
        let s = match &ar.nodes[*i as usize] {
            Node::Var(n) => format!("[{},\"var\",\"{}\"]", i, n),
            Node::Const(l) => {
                let c = cfq(*l);
                let b = c.to_slice();
                let mut h = String::new();
                for x in b.iter() {
                    h += &format!("{:02x}", x);
                }
                format!("[{},\"const\",\"{}\"]", i, h)
            }
            Node::Add(a, b) => format!("[{},\"add\",{},{}]", i, a, b),
            Node::Sub(a, b) => format!("[{},\"sub\",{},{}]", i, a, b),
            Node::Mul(a, b) => format!("[{},\"mul\",{},{}]", i, a, b),
            Node::Neg(a) => format!("[{},\"neg\",{}]", i, a),
            Node::Inv(a) => format!("[{},\"inv\",{}]", i, a),
            Node::Sqrt(a) => format!("[{},\"sqrt\",{}]", i, a),
        };
        parts.push(s);
    }
    format!("[{}]", parts.join(","))
}

#[derive(Copy, Clone, Debug)]
#[repr(C)]
pub struct Fq(pub u32);
impl PartialEq for Fq {
    fn eq(&self, o: &Fq) -> bool {
        if self.0 == o.0 {
            return true;
        }
        if let (Some(x), Some(y)) = (as_const(self.0), as_const(o.0)) {
            return x == y;
        }
        decide("eq", self.0, o.0)
    }
}
impl Eq for Fq {}
impl From<Fq> for U256 {
    fn from(a: Fq) -> U256 {
        as_const(a.0).expect("SYMBOLIC-BYTES: canonical bytes of a symbolic value requested").into()
    }
}
impl From<Fq> for [u8; 32] {
    fn from(a: Fq) -> [u8; 32] {
        as_const(a.0).expect("SYMBOLIC-BYTES: canonical bytes of a symbolic value requested").to_slice()
    }
}
impl<'a> From<&'a Fq> for [u8; 32] {
    fn from(a: &'a Fq) -> [u8; 32] {
        (*a).into()
    }
}
impl Fq {
    pub fn from_str(s: &str) -> Option<Self> {
        CFq::from_str(s).map(konst)
    }
    pub fn new(a: U256) -> Option<Self> {
        CFq::new(a).map(konst)
    }
    pub fn from_slice(h: &[u8]) -> Option<Self> {
        CFq::from_slice(h).map(konst)
    }
    pub fn to_slice(self) -> [u8; 32] {
        self.into()
    }
    pub fn new_mul_factor(a: U256) -> Self {
        konst(CFq::new_mul_factor(a))
    }
    pub fn interpret(b: &[u8; 64]) -> Self {
        konst(CFq::interpret(b))
    }
    pub fn modulus() -> U256 {
        CFq::modulus()
    }
    pub fn set_bit(&mut self, _bit: usize, _to: bool) {
        unimplemented!()
    }
    pub fn add_inplace(&self, o: &Fq) -> Fq {
        match (as_const(self.0), as_const(o.0)) {
            (Some(x), Some(y)) => konst(x + y),
            (Some(x), _) if x.is_zero() => *o,
            (_, Some(y)) if y.is_zero() => *self,
            _ => mk(Node::Add(self.0, o.0)),
        }
    }
    pub fn sub_inplace(&self, o: &Fq) -> Fq {
        match (as_const(self.0), as_const(o.0)) {
            (Some(x), Some(y)) => konst(x - y),
            (_, Some(y)) if y.is_zero() => *self,
            _ => mk(Node::Sub(self.0, o.0)),
        }
    }
    pub fn mul_inplace(&self, o: &Fq) -> Fq {
        match (as_const(self.0), as_const(o.0)) {
            (Some(x), Some(y)) => konst(x * y),
            (Some(x), _) if x.is_zero() => *self,
            (_, Some(y)) if y.is_zero() => *o,
            (Some(x), _) if x.is_one() => *o,
            (_, Some(y)) if y.is_one() => *self,
            _ => {
                let (a, b) = if self.0 <= o.0 { (self.0, o.0) } else { (o.0, self.0) };
                mk(Node::Mul(a, b))
            }
        }
    }
    pub fn neg_inplace(&self) -> Fq {
        match as_const(self.0) {
            Some(x) => konst(-x),
            None => mk(Node::Neg(self.0)),
        }
    }
    /// model of the square root: None, or SOME root s of x (which of the two is unspecified)
    pub fn sqrt(&self) -> Option<Self> {
        if let Some(c) = as_const(self.0) {
            return c.sqrt().map(konst);
        }
        if self.is_zero() {
            return Some(Self::zero());
        }
        if decide("sq", self.0, self.0) {
            Some(mk(Node::Sqrt(self.0)))
        } else {
            None
        }
    }
    pub fn div2(self) -> Self {
        self * konst(CFq::one().div2())
    }
    /// contract of the real kernel (engine L, L-sop): sum of a_i * b_i
    pub(crate) fn sum_of_products<const T: usize>(a: &[Fq; T], b: &[Fq; T]) -> Fq {
        let mut acc = Fq::zero();
        for i in 0..T {
            acc = acc + a[i] * b[i];
        }
        acc
    }
}
impl_binops_additive!(Fq, Fq);
impl_binops_multiplicative!(Fq, Fq);
impl_binops_negative!(Fq);
impl Zero for Fq {
    fn zero() -> Self {
        konst(CFq::zero())
    }
    fn is_zero(&self) -> bool {
        *self == Fq::zero()
    }
}
impl One for Fq {
    fn one() -> Self {
        konst(CFq::one())
    }
    fn is_one(&self) -> bool {
        *self == Fq::one()
    }
}
impl FieldElement for Fq {
    fn random<R: Rng>(_r: &mut R) -> Self {
        let mut a = lock();
        a.nvars += 1;
        let n = format!("rnd{}", a.nvars);
        drop(a);
        var(&n)
    }
    fn inverse(&self) -> Option<Self> {
        if self.is_zero() {
            None
        } else {
            match as_const(self.0) {
                Some(x) => x.inverse().map(konst),
                None => Some(mk(Node::Inv(self.0))),
            }
        }
    }
    fn double(&self) -> Self {
        *self + *self
    }
    fn triple(&self) -> Self {
        *self + *self + *self
    }
    fn squared(&self) -> Self {
        *self * *self
    }
}
impl core::ops::Index<usize> for Fq {
    type Output = u64;
    fn index(&self, _i: usize) -> &u64 {
        panic!("SYMBOLIC-BYTES: limb of a symbolic value requested")
    }
}
