//! Native evaluation of the engine-A tasks on concrete inputs (real build, real kernels): used to
//! replay solver counterexamples of engine A before they are reported. Mirrors alg/overlay/verif_alg.rs.
#![cfg(not(kani))]
use sm9_core::verif_hooks::*;
use sm9_core::{One, Zero};
use std::collections::HashMap;

pub struct Env(pub HashMap<String, RawFq>);
impl Env {
    fn v(&self, n: &str) -> RawFq {
        *self.0.get(n).unwrap_or_else(|| panic!("missing input {}", n))
    }
    fn f2(&self, n: &str) -> RawFq2 {
        RawFq2::new(self.v(&format!("{}0", n)), self.v(&format!("{}1", n)))
    }
    fn f4(&self, n: &str) -> Fq4 {
        Fq4::new(self.f2(&format!("{}0", n)), self.f2(&format!("{}1", n)))
    }
    fn f12(&self, n: &str) -> Fq12 {
        Fq12::new(self.f4(&format!("{}0", n)), self.f4(&format!("{}1", n)), self.f4(&format!("{}2", n)))
    }
}
fn o1(x: &RawFq) -> Vec<RawFq> {
    vec![*x]
}
fn o2(x: &RawFq2) -> Vec<RawFq> {
    let (a, b) = fq2_parts(x);
    vec![a, b]
}
fn o4(x: &Fq4) -> Vec<RawFq> {
    let (a, b) = fq4_parts(x);
    let mut r = o2(&a);
    r.extend(o2(&b));
    r
}
fn o12(x: &Fq12) -> Vec<RawFq> {
    let (a, b, c) = fq12_parts(x);
    let mut r = o4(&a);
    r.extend(o4(&b));
    r.extend(o4(&c));
    r
}
fn flag(b: bool) -> RawFq {
    if b {
        RawFq::one()
    } else {
        RawFq::zero()
    }
}
fn optf<T>(o: Option<T>, n: usize, f: impl Fn(&T) -> Vec<RawFq>) -> Vec<RawFq> {
    match o {
        Some(x) => {
            let mut r = vec![flag(true)];
            r.extend(f(&x));
            r
        }
        None => vec![flag(false); n + 1],
    }
}
fn cat(mut a: Vec<RawFq>, b: Vec<RawFq>) -> Vec<RawFq> {
    a.extend(b);
    a
}
trait Coords: FieldElement {
    fn mkv(e: &Env, n: &str) -> Self;
    fn outs(&self) -> Vec<RawFq>;
    const N: usize;
}
impl Coords for RawFq {
    fn mkv(e: &Env, n: &str) -> Self {
        e.v(n)
    }
    fn outs(&self) -> Vec<RawFq> {
        o1(self)
    }
    const N: usize = 1;
}
impl Coords for RawFq2 {
    fn mkv(e: &Env, n: &str) -> Self {
        e.f2(n)
    }
    fn outs(&self) -> Vec<RawFq> {
        o2(self)
    }
    const N: usize = 2;
}
fn gpt<P: GroupParams>(e: &Env, n: &str, mode: u8) -> G<P>
where
    P::Base: Coords,
{
    let z = match mode {
        b'a' => P::Base::one(),
        b'o' => P::Base::zero(),
        _ => P::Base::mkv(e, &format!("Z{}", n)),
    };
    G::new(P::Base::mkv(e, &format!("X{}", n)), P::Base::mkv(e, &format!("Y{}", n)), z)
}
fn og<P: GroupParams>(g: &G<P>) -> Vec<RawFq>
where
    P::Base: Coords,
{
    cat(cat(g.x().outs(), g.y().outs()), g.z().outs())
}
fn group<P: GroupParams>(e: &Env, op: &str, m: &str) -> Option<Vec<RawFq>>
where
    P::Base: Coords,
{
    let mb = m.as_bytes();
    Some(match op {
        "add" => og::<P>(&(gpt::<P>(e, "1", mb[0]) + gpt::<P>(e, "2", mb[1]))),
        "sub" => og::<P>(&(gpt::<P>(e, "1", mb[0]) - gpt::<P>(e, "2", mb[1]))),
        "eq" => vec![flag(gpt::<P>(e, "1", mb[0]) == gpt::<P>(e, "2", mb[1]))],
        "addassign" => {
            let mut a = gpt::<P>(e, "1", mb[0]);
            a += gpt::<P>(e, "2", mb[1]);
            let mut b = gpt::<P>(e, "1", mb[0]);
            b += &gpt::<P>(e, "2", mb[1]);
            cat(og::<P>(&a), og::<P>(&b))
        }
        "double" => og::<P>(&gpt::<P>(e, "1", mb[0]).double()),
        "neg" => og::<P>(&(-gpt::<P>(e, "1", mb[0]))),
        "toaffine" => optf(gpt::<P>(e, "1", mb[0]).to_affine(), 2 * P::Base::N, |a| cat(a.x().outs(), a.y().outs())),
        "iszero" => vec![flag(gpt::<P>(e, "1", mb[0]).is_zero())],
        _ => return None,
    })
}
pub fn eval(task: &str, e: &Env) -> Option<Vec<RawFq>> {
    let ph = |_: ()| ();
    let parts: Vec<&str> = task.split('_').collect();
    if parts[0] == "g1" || parts[0] == "g2" || parts[0] == "gabs" {
        if parts.len() >= 3 && parts[1] != "affine" {
            // gabs (abstract ring) is replayed on both real instantiations by the caller (g1_/g2_ names)
            return if parts[0] == "g2" { group::<G2Params>(e, parts[1], parts[2]) } else { group::<G1Params>(e, parts[1], parts[2]) };
        }
        if parts[1] == "affine" {
            return Some(if parts[0] == "g2" {
                match AffineG::<G2Params>::new(e.f2("X1"), e.f2("Y1")) {
                    Ok(a) => cat(vec![flag(true)], cat(o2(a.x()), o2(a.y()))),
                    Err(_) => vec![flag(false); 5],
                }
            } else {
                match AffineG::<G1Params>::new(e.v("X1"), e.v("Y1")) {
                    Ok(a) => cat(vec![flag(true)], cat(o1(a.x()), o1(a.y()))),
                    Err(_) => vec![flag(false); 3],
                }
            });
        }
    }
    let _ = ph;
    Some(match task {
        "fq2_mul" => o2(&(e.f2("x") * e.f2("y"))),
        "fq2_mul_forms" => {
            let (x, y) = (e.f2("x"), e.f2("y"));
            let mut z = x;
            z *= y;
            let mut w = x;
            w *= &y;
            cat(cat(o2(&(&x * &y)), o2(&(x * &y))), cat(o2(&z), o2(&w)))
        }
        "fq2_sq" => o2(&e.f2("x").squared()),
        "fq2_inv" => optf(e.f2("x").inverse(), 2, o2),
        "fq2_scale" => o2(&e.f2("x").scale(&e.v("s"))),
        "fq2_mulnr" => o2(&e.f2("x").mul_by_nonresidue()),
        "fq2_conj" => o2(&e.f2("x").unitary_inverse()),
        "fq2_div2" => o2(&e.f2("x").div2()),
        "fq2_add" => o2(&(e.f2("x") + e.f2("y"))),
        "fq2_sub" => o2(&(e.f2("x") - e.f2("y"))),
        "fq2_neg" => o2(&(-e.f2("x"))),
        "fq2_double" => o2(&e.f2("x").double()),
        "fq2_triple" => o2(&e.f2("x").triple()),
        "fq2_i_one_zero" => cat(cat(o2(&RawFq2::i()), o2(&RawFq2::one())), o2(&RawFq2::zero())),
        "fq2_sqrt" => optf(e.f2("x").sqrt(), 2, o2),
        "fq2_sqrt_of_square" => optf(e.f2("c").squared().sqrt(), 2, o2),
        "fq2_sqrt_of_real" => optf(RawFq2::new(e.v("a"), RawFq::zero()).sqrt(), 2, o2),
        "fq2_sqrt_of_imag" => optf(RawFq2::new(RawFq::zero(), e.v("b")).sqrt(), 2, o2),
        "fq4_mul" => o4(&(e.f4("x") * e.f4("y"))),
        "fq4_mul1" => o4(&e.f4("x").mul_1(&Fq4::new(RawFq2::zero(), e.f2("y1")))),
        "fq4_sq" => o4(&e.f4("x").squared()),
        "fq4_inv" => optf(e.f4("x").inverse(), 4, o4),
        "fq4_scale" => o4(&e.f4("x").scale(&e.f2("s"))),
        "fq4_scale_fq" => o4(&e.f4("x").scale_fq(&e.v("s"))),
        "fq4_mulnr" => o4(&e.f4("x").mul_by_nonresidue()),
        "fq4_conj" => o4(&e.f4("x").unitary_inverse()),
        "fq4_add" => o4(&(e.f4("x") + e.f4("y"))),
        "fq4_sub" => o4(&(e.f4("x") - e.f4("y"))),
        "fq4_neg" => o4(&(-e.f4("x"))),
        "fq4_double" => o4(&e.f4("x").double()),
        "fq4_triple" => o4(&e.f4("x").triple()),
        "fq4_one_zero" => cat(o4(&Fq4::one()), o4(&Fq4::zero())),
        "fq12_mul" => o12(&(e.f12("x") * e.f12("y"))),
        "fq12_mul015" => o12(&e.f12("x").mul_015(&Fq12::new(e.f4("y0"), Fq4::zero(), Fq4::new(RawFq2::zero(), e.f2("y21"))))),
        "fq12_sq" => o12(&e.f12("x").squared()),
        "fq12_scale" => o12(&e.f12("x").scale(&e.f4("s"))),
        "fq12_mulnr" => o12(&e.f12("x").mul_by_nonresidue()),
        "fq12_add" => o12(&(e.f12("x") + e.f12("y"))),
        "fq12_sub" => o12(&(e.f12("x") - e.f12("y"))),
        "fq12_neg" => o12(&(-e.f12("x"))),
        "fq12_one_zero" => cat(o12(&Fq12::one()), o12(&Fq12::zero())),
        "fq12_inv" => optf(e.f12("x").inverse(), 12, o12),
        _ => {
            if let Some(k) = task.strip_prefix("fq4_frob_") {
                return Some(o4(&e.f4("x").frobenius_map(k.parse().ok()?)));
            }
            if let Some(k) = task.strip_prefix("fq12_frob_") {
                return Some(o12(&e.f12("x").frobenius_map(k.parse().ok()?)));
            }
            if let Some(k) = task.strip_prefix("fq12_pow_") {
                return Some(o12(&FieldElement::pow(&e.f12("x"), RawFr::from_str(k)?)));
            }
            return None;
        }
    })
}
