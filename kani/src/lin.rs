//! k_lin_*: linear limb arithmetic of Fq / Fr through the PUBLIC operator forms, dev-profile
//! semantics, against the independent reference of common.rs. Inputs: arbitrary stored limbs < p.
use crate::common::*;
use sm9_core::verif_hooks::FieldElement;

macro_rules! lin_family {
    ($m:ident, $P:expr, $pubty:ty, $mk:expr, $raw:expr, $rawmk:expr, $rawraw:expr) => {
        pub mod $m {
            use super::*;
            fn mk(l: [u64; 4]) -> $pubty {
                $mk(l)
            }
            fn raw(x: &$pubty) -> [u64; 4] {
                $raw(x)
            }
            #[kani::proof]
            #[kani::unwind(6)]
            #[kani::stub(core::arch::x86_64::_addcarry_u64, addcarry_stub)]
            #[kani::stub(core::arch::x86_64::_subborrow_u64, subborrow_stub)]
            fn add() {
                let (a, b) = (any_below(&$P), any_below(&$P));
                let (x, y) = (mk(a), mk(b));
                let want = ref_add(&a, &b, &$P);
                assert!(lt(&want, &$P));
                assert!(eq4(&raw(&(x + y)), &want));
                assert!(eq4(&raw(&(&x + &y)), &want));
                assert!(eq4(&raw(&(x + &y)), &want));
                assert!(eq4(&raw(&(&x + y)), &want));
                let mut z = x;
                z += y;
                assert!(eq4(&raw(&z), &want));
                let mut z = x;
                z += &y;
                assert!(eq4(&raw(&z), &want));
                kani::cover!(add5(&a, &b)[4] == 1, "carry out of the top limb");
                kani::cover!(eq4(&want, &[0; 4]) && !is0(&a), "sum equal to the modulus");
            }
            #[kani::proof]
            #[kani::unwind(6)]
            #[kani::stub(core::arch::x86_64::_addcarry_u64, addcarry_stub)]
            #[kani::stub(core::arch::x86_64::_subborrow_u64, subborrow_stub)]
            fn sub() {
                let (a, b) = (any_below(&$P), any_below(&$P));
                let (x, y) = (mk(a), mk(b));
                let want = ref_sub(&a, &b, &$P);
                assert!(lt(&want, &$P));
                assert!(eq4(&raw(&(x - y)), &want));
                assert!(eq4(&raw(&(&x - &y)), &want));
                assert!(eq4(&raw(&(x - &y)), &want));
                assert!(eq4(&raw(&(&x - y)), &want));
                let mut z = x;
                z -= y;
                assert!(eq4(&raw(&z), &want));
                let mut z = x;
                z -= &y;
                assert!(eq4(&raw(&z), &want));
                kani::cover!(lt(&a, &b), "borrow path");
            }
            #[kani::proof]
            #[kani::unwind(6)]
            #[kani::stub(core::arch::x86_64::_addcarry_u64, addcarry_stub)]
            #[kani::stub(core::arch::x86_64::_subborrow_u64, subborrow_stub)]
            fn neg() {
                let a = any_below(&$P);
                let x = mk(a);
                let want = ref_neg(&a, &$P);
                assert!(lt(&want, &$P));
                assert!(eq4(&raw(&(-x)), &want));
                assert!(eq4(&raw(&(-&x)), &want));
                // zero test is exactly "all limbs zero"
                assert!(x.is_zero() == is0(&a));
                kani::cover!(is0(&a), "neg of zero");
            }
            // multiplicative operator forms all reach U256::mul(self, other, modulus, inv) with the
            // operands in this order (the kernel itself is decided by engine L)
            #[kani::proof]
            #[kani::unwind(6)]
            #[kani::stub(core::arch::x86_64::_addcarry_u64, addcarry_stub)]
            #[kani::stub(core::arch::x86_64::_subborrow_u64, subborrow_stub)]
            #[kani::stub(sm9_core::verif_hooks::U256::mul, mul_tag)]
            fn mul_forms() {
                let (a, b) = (any_below(&$P), any_below(&$P));
                let (x, y) = (mk(a), mk(b));
                let mut want = U256::from(a);
                want.mul(&U256::from(b), &U256::from($P), 0);
                // inv is a constant of the field; obtain it from the value-form and demand the
                // same from all others
                let w = raw(&(x * y));
                let t = tagf(&a, &b);
                assert!(w[0] == t[0] ^ $P[0] && w[2] == t[2] && w[3] == t[3]);
                assert!(eq4(&raw(&(&x * &y)), &w));
                assert!(eq4(&raw(&(x * &y)), &w));
                assert!(eq4(&raw(&(&x * y)), &w));
                let mut z = x;
                z *= y;
                assert!(eq4(&raw(&z), &w));
                let mut z = x;
                z *= &y;
                assert!(eq4(&raw(&z), &w));
            }
            // raw-level double / triple / (Fq) div2 of the internal field type
            #[kani::proof]
            #[kani::unwind(6)]
            #[kani::stub(core::arch::x86_64::_addcarry_u64, addcarry_stub)]
            #[kani::stub(core::arch::x86_64::_subborrow_u64, subborrow_stub)]
            fn double_triple() {
                let a = any_below(&$P);
                let x = $rawmk(a);
                let d = ref_add(&a, &a, &$P);
                let t = ref_add(&d, &a, &$P);
                assert!(eq4(&$rawraw(&x.double()), &d));
                assert!(eq4(&$rawraw(&x.triple()), &t));
                assert!(lt(&d, &$P) && lt(&t, &$P));
                kani::cover!(a[3] >> 63 == 1, "doubling overflows 2^256");
            }
            // inverse(): None exactly for zero; otherwise invert() is entered with a non-zero
            // value below the modulus (contract stub asserts it) and its result is returned
            #[kani::proof]
            #[kani::unwind(6)]
            #[kani::stub(core::arch::x86_64::_addcarry_u64, addcarry_stub)]
            #[kani::stub(core::arch::x86_64::_subborrow_u64, subborrow_stub)]
            #[kani::stub(sm9_core::verif_hooks::U256::invert, invert_havoc)]
            fn inverse_none_iff_zero() {
                let a = any_below(&$P);
                let x = mk(a);
                let r = x.inverse();
                assert!(r.is_none() == is0(&a));
                if let Some(i) = r {
                    assert!(lt(&raw(&i), &$P));
                }
            }
        }
    };
}

lin_family!(
    k_lin_fq,
    Q,
    sm9_core::Fq,
    |l| pub_fq(fq_from_raw(l)),
    |x: &sm9_core::Fq| fq_raw(&pub_fq_inner(x)),
    fq_from_raw,
    fq_raw
);
lin_family!(
    k_lin_fr,
    R,
    sm9_core::Fr,
    |l| pub_fr(fr_from_raw(l)),
    |x: &sm9_core::Fr| fr_raw(&pub_fr_inner(x)),
    fr_from_raw,
    fr_raw
);

#[kani::proof]
#[kani::unwind(6)]
#[kani::stub(core::arch::x86_64::_addcarry_u64, addcarry_stub)]
#[kani::stub(core::arch::x86_64::_subborrow_u64, subborrow_stub)]
fn k_lin_fq_div2() {
    let a = any_below(&Q);
    let x = fq_from_raw(a);
    let h = ref_half(&a, &Q);
    assert!(eq4(&fq_raw(&x.div2()), &h));
    assert!(lt(&h, &Q));
    // and doubling it gives a back
    assert!(eq4(&ref_add(&h, &h, &Q), &a));
    kani::cover!(a[0] & 1 == 1 && add5(&a, &Q)[4] == 1, "odd with carry into bit 256");
}
