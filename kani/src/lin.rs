//! k_lin_*: linear limb arithmetic of Fq / Fr through the PUBLIC operator forms, dev-profile
//! semantics, against the independent reference of common.rs. Inputs: arbitrary stored limbs < p.
use crate::common::*;
use crate::{cover, harnesses};
use core::ops::*;
use sm9_core::verif_hooks::FieldElement;

/// the two prime fields, seen through the public wrapper type and through the internal type
pub trait FieldK {
    const P: [u64; 4];
    type Pub: Copy
        + Add<Output = Self::Pub>
        + Sub<Output = Self::Pub>
        + Mul<Output = Self::Pub>
        + Neg<Output = Self::Pub>
        + for<'a> Add<&'a Self::Pub, Output = Self::Pub>
        + for<'a> Sub<&'a Self::Pub, Output = Self::Pub>
        + for<'a> Mul<&'a Self::Pub, Output = Self::Pub>
        + AddAssign
        + SubAssign
        + MulAssign
        + for<'a> AddAssign<&'a Self::Pub>
        + for<'a> SubAssign<&'a Self::Pub>
        + for<'a> MulAssign<&'a Self::Pub>;
    type Raw: FieldElement;
    fn mk(l: [u64; 4]) -> Self::Pub;
    fn raw(x: &Self::Pub) -> [u64; 4];
    fn rmk(l: [u64; 4]) -> Self::Raw;
    fn rraw(x: &Self::Raw) -> [u64; 4];
    fn add_rr(x: &Self::Pub, y: &Self::Pub) -> Self::Pub;
    fn add_rv(x: &Self::Pub, y: Self::Pub) -> Self::Pub;
    fn sub_rr(x: &Self::Pub, y: &Self::Pub) -> Self::Pub;
    fn sub_rv(x: &Self::Pub, y: Self::Pub) -> Self::Pub;
    fn mul_rr(x: &Self::Pub, y: &Self::Pub) -> Self::Pub;
    fn mul_rv(x: &Self::Pub, y: Self::Pub) -> Self::Pub;
    fn neg_r(x: &Self::Pub) -> Self::Pub;
    fn is_zero(x: &Self::Pub) -> bool;
    fn inverse(x: &Self::Pub) -> Option<Self::Pub>;
    const ONE: [u64; 4];
    const R2: [u64; 4];
    const TEN: [u64; 4];
    fn from_slice(b: &[u8]) -> Option<Self::Pub>;
    fn to_slice(x: Self::Pub) -> [u8; 32];
    fn interpret(b: &[u8; 64]) -> Self::Pub;
    fn from_dec(s: &str) -> Option<Self::Pub>;
    fn eq(x: &Self::Pub, y: &Self::Pub) -> bool;
}
pub struct KFq;
pub struct KFr;
macro_rules! impl_fieldk {
    ($k:ident, $P:expr, $one:expr, $r2:expr, $ten:expr, $pubty:ty, $rawty:ty, $wrap:ident, $inner:ident, $from_raw:ident, $to_raw:ident) => {
        impl FieldK for $k {
            const P: [u64; 4] = $P;
            type Pub = $pubty;
            type Raw = $rawty;
            fn mk(l: [u64; 4]) -> $pubty {
                $wrap($from_raw(l))
            }
            fn raw(x: &$pubty) -> [u64; 4] {
                $to_raw(&$inner(x))
            }
            fn rmk(l: [u64; 4]) -> $rawty {
                $from_raw(l)
            }
            fn rraw(x: &$rawty) -> [u64; 4] {
                $to_raw(x)
            }
            fn add_rr(x: &$pubty, y: &$pubty) -> $pubty {
                x + y
            }
            fn add_rv(x: &$pubty, y: $pubty) -> $pubty {
                x + y
            }
            fn sub_rr(x: &$pubty, y: &$pubty) -> $pubty {
                x - y
            }
            fn sub_rv(x: &$pubty, y: $pubty) -> $pubty {
                x - y
            }
            fn mul_rr(x: &$pubty, y: &$pubty) -> $pubty {
                x * y
            }
            fn mul_rv(x: &$pubty, y: $pubty) -> $pubty {
                x * y
            }
            fn neg_r(x: &$pubty) -> $pubty {
                -x
            }
            fn is_zero(x: &$pubty) -> bool {
                x.is_zero()
            }
            fn inverse(x: &$pubty) -> Option<$pubty> {
                x.inverse()
            }
            const ONE: [u64; 4] = $one;
            const R2: [u64; 4] = $r2;
            const TEN: [u64; 4] = $ten;
            fn from_slice(b: &[u8]) -> Option<$pubty> {
                <$pubty>::from_slice(b)
            }
            fn to_slice(x: $pubty) -> [u8; 32] {
                x.to_slice()
            }
            fn interpret(b: &[u8; 64]) -> $pubty {
                <$pubty>::interpret(b)
            }
            fn from_dec(s: &str) -> Option<$pubty> {
                <$pubty as sm9_core::FromStr>::from_str(s).ok()
            }
            fn eq(x: &$pubty, y: &$pubty) -> bool {
                x == y
            }
        }
    };
}
impl_fieldk!(KFq, Q, Q_ONE, Q_R2, Q_TEN, sm9_core::Fq, RawFq, pub_fq, pub_fq_inner, fq_from_raw, fq_raw);
impl_fieldk!(KFr, R, R_ONE, R_R2, R_TEN, sm9_core::Fr, RawFr, pub_fr, pub_fr_inner, fr_from_raw, fr_raw);

fn lin_add<K: FieldK>() {
    let (a, b) = (any_below(&K::P), any_below(&K::P));
    let (x, y) = (K::mk(a), K::mk(b));
    let want = ref_add(&a, &b, &K::P);
    assert!(lt(&want, &K::P));
    assert!(eq4(&K::raw(&(x + y)), &want), "a + b");
    assert!(eq4(&K::raw(&K::add_rr(&x, &y)), &want), "&a + &b");
    assert!(eq4(&K::raw(&(x + &y)), &want), "a + &b");
    assert!(eq4(&K::raw(&K::add_rv(&x, y)), &want), "&a + b");
    let mut z = x;
    z += y;
    assert!(eq4(&K::raw(&z), &want), "a += b");
    let mut z = x;
    z += &y;
    assert!(eq4(&K::raw(&z), &want), "a += &b");
    cover!(add5(&a, &b)[4] == 1, "carry out of the top limb");
    cover!(is0(&want) && !is0(&a), "sum equal to the modulus");
}
fn lin_sub<K: FieldK>() {
    let (a, b) = (any_below(&K::P), any_below(&K::P));
    let (x, y) = (K::mk(a), K::mk(b));
    let want = ref_sub(&a, &b, &K::P);
    assert!(lt(&want, &K::P));
    assert!(eq4(&K::raw(&(x - y)), &want), "a - b");
    assert!(eq4(&K::raw(&K::sub_rr(&x, &y)), &want), "&a - &b");
    assert!(eq4(&K::raw(&(x - &y)), &want), "a - &b");
    assert!(eq4(&K::raw(&K::sub_rv(&x, y)), &want), "&a - b");
    let mut z = x;
    z -= y;
    assert!(eq4(&K::raw(&z), &want), "a -= b");
    let mut z = x;
    z -= &y;
    assert!(eq4(&K::raw(&z), &want), "a -= &b");
    cover!(lt(&a, &b), "borrow path");
}
fn lin_neg<K: FieldK>() {
    let a = any_below(&K::P);
    let x = K::mk(a);
    let want = ref_neg(&a, &K::P);
    assert!(lt(&want, &K::P));
    assert!(eq4(&K::raw(&(-x)), &want), "-a");
    assert!(eq4(&K::raw(&K::neg_r(&x)), &want), "-&a");
    // the zero test is exactly "all limbs zero" (with L-dec: value 0)
    assert!(K::is_zero(&x) == is0(&a), "is_zero");
    cover!(is0(&a), "neg of zero");
}
// Every multiplicative operator form reaches the kernel U256::mul(self, other, modulus, inv) with
// the operands in this order. Under Kani the kernel is replaced by a cheap deterministic
// non-commutative tag (the kernel itself is decided by engine L); natively the real kernel runs
// and the forms are compared with each other.
fn lin_mul_forms<K: FieldK>() {
    let (a, b) = (any_below(&K::P), any_below(&K::P));
    let (x, y) = (K::mk(a), K::mk(b));
    let w = K::raw(&(x * y));
    #[cfg(kani)]
    {
        let t = tagf(&a, &b);
        assert!(w[0] == t[0] ^ K::P[0] && w[2] == t[2] && w[3] == t[3], "a * b operands");
    }
    assert!(eq4(&K::raw(&K::mul_rr(&x, &y)), &w), "&a * &b");
    assert!(eq4(&K::raw(&(x * &y)), &w), "a * &b");
    assert!(eq4(&K::raw(&K::mul_rv(&x, y)), &w), "&a * b");
    let mut z = x;
    z *= y;
    assert!(eq4(&K::raw(&z), &w), "a *= b");
    let mut z = x;
    z *= &y;
    assert!(eq4(&K::raw(&z), &w), "a *= &b");
}
fn lin_double_triple<K: FieldK>() {
    let a = any_below(&K::P);
    let x = K::rmk(a);
    let d = ref_add(&a, &a, &K::P);
    let t = ref_add(&d, &a, &K::P);
    assert!(eq4(&K::rraw(&x.double()), &d), "double");
    assert!(eq4(&K::rraw(&x.triple()), &t), "triple");
    assert!(lt(&d, &K::P) && lt(&t, &K::P));
    cover!(a[3] >> 63 == 1, "doubling overflows 2^256");
}
// inverse(): None exactly for zero; otherwise invert() is entered with a non-zero value (the
// contract stub asserts it) and its (canonical) result is what is returned
fn lin_inverse_none_iff_zero<K: FieldK>() {
    let a = any_below(&K::P);
    let x = K::mk(a);
    let r = K::inverse(&x);
    assert!(r.is_none() == is0(&a), "inverse is None exactly for zero");
    if let Some(i) = r {
        assert!(lt(&K::raw(&i), &K::P), "inverse canonical");
    }
}

harnesses! { registry;
    #[kani::unwind(6)]
    #[kani::stub(core::arch::x86_64::_addcarry_u64, addcarry_stub)]
    #[kani::stub(core::arch::x86_64::_subborrow_u64, subborrow_stub)]
    fn k_lin_fq_add() { lin_add::<KFq>() }
    #[kani::unwind(6)]
    #[kani::stub(core::arch::x86_64::_addcarry_u64, addcarry_stub)]
    #[kani::stub(core::arch::x86_64::_subborrow_u64, subborrow_stub)]
    fn k_lin_fr_add() { lin_add::<KFr>() }
    #[kani::unwind(6)]
    #[kani::stub(core::arch::x86_64::_addcarry_u64, addcarry_stub)]
    #[kani::stub(core::arch::x86_64::_subborrow_u64, subborrow_stub)]
    fn k_lin_fq_sub() { lin_sub::<KFq>() }
    #[kani::unwind(6)]
    #[kani::stub(core::arch::x86_64::_addcarry_u64, addcarry_stub)]
    #[kani::stub(core::arch::x86_64::_subborrow_u64, subborrow_stub)]
    fn k_lin_fr_sub() { lin_sub::<KFr>() }
    #[kani::unwind(6)]
    #[kani::stub(core::arch::x86_64::_addcarry_u64, addcarry_stub)]
    #[kani::stub(core::arch::x86_64::_subborrow_u64, subborrow_stub)]
    fn k_lin_fq_neg() { lin_neg::<KFq>() }
    #[kani::unwind(6)]
    #[kani::stub(core::arch::x86_64::_addcarry_u64, addcarry_stub)]
    #[kani::stub(core::arch::x86_64::_subborrow_u64, subborrow_stub)]
    fn k_lin_fr_neg() { lin_neg::<KFr>() }
    #[kani::unwind(6)]
    #[kani::stub(core::arch::x86_64::_addcarry_u64, addcarry_stub)]
    #[kani::stub(core::arch::x86_64::_subborrow_u64, subborrow_stub)]
    #[kani::stub(sm9_core::verif_hooks::U256::mul, mul_tag)]
    fn k_lin_fq_mul_forms() { lin_mul_forms::<KFq>() }
    #[kani::unwind(6)]
    #[kani::stub(core::arch::x86_64::_addcarry_u64, addcarry_stub)]
    #[kani::stub(core::arch::x86_64::_subborrow_u64, subborrow_stub)]
    #[kani::stub(sm9_core::verif_hooks::U256::mul, mul_tag)]
    fn k_lin_fr_mul_forms() { lin_mul_forms::<KFr>() }
    #[kani::unwind(6)]
    #[kani::stub(core::arch::x86_64::_addcarry_u64, addcarry_stub)]
    #[kani::stub(core::arch::x86_64::_subborrow_u64, subborrow_stub)]
    fn k_lin_fq_double_triple() { lin_double_triple::<KFq>() }
    #[kani::unwind(6)]
    #[kani::stub(core::arch::x86_64::_addcarry_u64, addcarry_stub)]
    #[kani::stub(core::arch::x86_64::_subborrow_u64, subborrow_stub)]
    fn k_lin_fr_double_triple() { lin_double_triple::<KFr>() }
    #[kani::unwind(6)]
    #[kani::stub(core::arch::x86_64::_addcarry_u64, addcarry_stub)]
    #[kani::stub(core::arch::x86_64::_subborrow_u64, subborrow_stub)]
    #[kani::stub(sm9_core::verif_hooks::U256::invert, invert_havoc)]
    fn k_lin_fq_inverse_none_iff_zero() { lin_inverse_none_iff_zero::<KFq>() }
    #[kani::unwind(6)]
    #[kani::stub(core::arch::x86_64::_addcarry_u64, addcarry_stub)]
    #[kani::stub(core::arch::x86_64::_subborrow_u64, subborrow_stub)]
    #[kani::stub(sm9_core::verif_hooks::U256::invert, invert_havoc)]
    fn k_lin_fr_inverse_none_iff_zero() { lin_inverse_none_iff_zero::<KFr>() }
    #[kani::unwind(6)]
    #[kani::stub(core::arch::x86_64::_addcarry_u64, addcarry_stub)]
    #[kani::stub(core::arch::x86_64::_subborrow_u64, subborrow_stub)]
    fn k_lin_fq_div2() {
        let a = any_below(&Q);
        let x = fq_from_raw(a);
        let h = ref_half(&a, &Q);
        assert!(eq4(&fq_raw(&x.div2()), &h), "div2");
        assert!(lt(&h, &Q));
        // doubling it gives a back (sanity of the reference itself)
        assert!(eq4(&ref_add(&h, &h, &Q), &a));
        cover!(a[0] & 1 == 1 && add5(&a, &Q)[4] == 1, "odd with carry into bit 256");
    }
}
