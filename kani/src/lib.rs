//! Engine K: Kani proof harnesses over the real sm9_core crate (path dependency on /repo,
//! built with --cfg john_yu_sm9_core_verif). See /verif/DESIGN.md section 2.
#![allow(unused, clippy::all)]
#[cfg(kani)]
pub mod common;
#[cfg(kani)]
pub mod lin;
