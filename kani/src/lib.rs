//! Engine K: Kani proof harnesses over the real sm9_core crate (path dependency on /repo,
//! built with --cfg john_yu_sm9_core_verif). See /verif/DESIGN.md section 2.
//! The same bodies compile natively (no stubs) and are run by src/bin/replay.rs on counterexamples.
#![allow(unused, clippy::all)]
pub mod common;
pub mod lin;
pub mod conv;
pub mod dec;
pub mod toy;
#[cfg(not(kani))]
pub mod algreplay;

pub fn registry() -> Vec<(&'static str, fn())> {
    let mut v = Vec::new();
    v.extend(lin::registry());
    v.extend(conv::registry());
    v.extend(dec::registry());
    v.extend(toy::registry());
    v
}
