//! Native replay: run one harness body on the real code with concrete inputs.
//! usage: replay <harness> <hex,hex,...>   (each hex string = little-endian bytes of one input)
//! exit 0: body ran to completion (property holds on this input); 1: assertion/panic reproduced;
//! 3: input does not satisfy the harness assumptions; 4: usage / unknown harness.
#[cfg(kani)]
fn main() {}
#[cfg(not(kani))]
use sm9_kani::common::{sym, AssumeFailed};
#[cfg(not(kani))]
fn main() {
    let a: Vec<String> = std::env::args().collect();
    if a.len() < 2 {
        eprintln!("usage: replay <harness> [hex,hex,...]");
        std::process::exit(4);
    }
    if a[1] == "--list" {
        for (n, _) in sm9_kani::registry() {
            println!("{}", n);
        }
        return;
    }
    let f = match sm9_kani::registry().into_iter().find(|(n, _)| *n == a[1]) {
        Some((_, f)) => f,
        None => {
            eprintln!("unknown harness {}", a[1]);
            std::process::exit(4);
        }
    };
    let mut vals: Vec<Vec<u8>> = Vec::new();
    if a.len() > 2 && !a[2].is_empty() {
        for h in a[2].split(',') {
            let h = h.trim();
            let mut v = Vec::new();
            let mut i = 0;
            while i + 1 < h.len() + 1 && i + 2 <= h.len() {
                v.push(u8::from_str_radix(&h[i..i + 2], 16).expect("hex"));
                i += 2;
            }
            vals.push(v);
        }
    }
    sym::set_input(vals);
    let r = std::panic::catch_unwind(f);
    match r {
        Ok(()) => {
            println!("REPLAY-OK {}", a[1]);
        }
        Err(e) => {
            if e.downcast_ref::<AssumeFailed>().is_some() {
                println!("REPLAY-ASSUME-FAILED {}", a[1]);
                std::process::exit(3);
            }
            let msg = if let Some(s) = e.downcast_ref::<&str>() {
                s.to_string()
            } else if let Some(s) = e.downcast_ref::<String>() {
                s.clone()
            } else {
                String::from("panic")
            };
            println!("REPLAY-VIOLATION {} :: {}", a[1], msg);
            std::process::exit(1);
        }
    }
}
