//! Native replay: run one harness body on the real code with concrete inputs.
//! usage: replay <harness> <hex,hex,...>   (each hex string = little-endian bytes of one input)
//! exit 0: body ran to completion (property holds on this input); 1: assertion/panic reproduced;
//! 3: input does not satisfy the harness assumptions; 4: usage / unknown harness.
#[cfg(kani)]
fn main() {}
#[cfg(not(kani))]
use sm9_kani::common::{sym, AssumeFailed};
#[cfg(not(kani))]
use sm9_core::verif_hooks::FieldElement;
#[cfg(not(kani))]
fn main() {
    let a: Vec<String> = std::env::args().collect();
    if a.len() < 2 {
        eprintln!("usage: replay <harness> [hex,hex,...]");
        std::process::exit(4);
    }
    if a[1] == "--list" {
        for (n, _) in sm9_kani::registry() {
            println!("{}", n);
        }
        return;
    }
    if a[1] == "--kernel" {
        // native evaluation of one kernel on raw (stored) limbs: operands/results are 64-hex-digit integers
        use sm9_kani::common::*;
        let parse = |h: &String| -> [u64; 4] {
            let v = u128::from_str_radix(&h[0..32], 16).unwrap();
            let w = u128::from_str_radix(&h[32..64], 16).unwrap();
            [w as u64, (w >> 64) as u64, v as u64, (v >> 64) as u64]
        };
        let show = |l: [u64; 4]| println!("{:016x}{:016x}{:016x}{:016x}", l[3], l[2], l[1], l[0]);
        let o: Vec<[u64; 4]> = a[3..].iter().map(parse).collect();
        let q = |i: usize| fq_from_raw(o[i]);
        let r = |i: usize| fr_from_raw(o[i]);
        match a[2].as_str() {
            "fq_mul" => show(fq_raw(&(q(0) * q(1)))),
            "fr_mul" => show(fr_raw(&(r(0) * r(1)))),
            "fq_square" => show(fq_raw(&q(0).squared())),
            "fr_square" => show(fr_raw(&r(0).squared())),
            "fq_sop2" => show(fq_raw(&vh_fq_sop2(&[q(0), q(1)], &[q(2), q(3)]))),
            "fq_sop4" => show(fq_raw(&vh_fq_sop4(&[q(0), q(1), q(2), q(3)], &[q(4), q(5), q(6), q(7)]))),
            "fq_decode" => show(u256_limbs(&vh_fq_decode(&q(0)))),
            "fr_decode" => show(u256_limbs(&vh_fr_decode(&r(0)))),
            "fq_encode" => show(fq_raw(&vh_fq_encode(&U256::from(o[0])))),
            "fr_encode" => show(fr_raw(&vh_fr_encode(&U256::from(o[0])))),
            "fq_add" => show(fq_raw(&(q(0) + q(1)))),
            "fq_sub" => show(fq_raw(&(q(0) - q(1)))),
            "fq_neg" => show(fq_raw(&(-q(0)))),
            "fq_double" => show(fq_raw(&q(0).double())),
            "fq_div2" => show(fq_raw(&q(0).div2())),
            "fr_add" => show(fr_raw(&(r(0) + r(1)))),
            "fr_sub" => show(fr_raw(&(r(0) - r(1)))),
            "fr_neg" => show(fr_raw(&(-r(0)))),
            "fr_double" => show(fr_raw(&r(0).double())),
            _ => { eprintln!("unknown kernel"); std::process::exit(4); }
        }
        return;
    }
    if a[1] == "--alg" {
        // replay --alg <task> name=hex64 name=hex64 ... : native evaluation of one engine-A task
        use sm9_kani::common::*;
        let mut m = std::collections::HashMap::new();
        for kv in &a[3..] {
            let (k, h) = kv.split_once('=').expect("name=hex");
            let mut b = [0u8; 32];
            for i in 0..32 {
                b[i] = u8::from_str_radix(&h[2 * i..2 * i + 2], 16).expect("hex");
            }
            m.insert(k.to_string(), RawFq::from_slice(&b).expect("canonical input"));
        }
        match std::panic::catch_unwind(|| sm9_kani::algreplay::eval(&a[2], &sm9_kani::algreplay::Env(m))) {
            Ok(Some(v)) => {
                for x in v {
                    let s = x.to_slice();
                    println!("{}", s.iter().map(|b| format!("{:02x}", b)).collect::<String>());
                }
            }
            Ok(None) => { println!("UNKNOWN-TASK"); std::process::exit(4); }
            Err(_) => { println!("PANIC"); std::process::exit(1); }
        }
        return;
    }
    if a[1] == "--finalexp" {
        // final exponentiations on an element that is NOT a Miller-loop output: x -> x^((q^12-1)/r) must have order
        // dividing r, and both routines must agree
        use sm9_kani::common::*;
        use sm9_core::verif_hooks::pairing_hooks as ph;
        let f = |i: u64| fq_from_raw([i, 3 * i + 1, 7, 11]);
        let q2 = |i: u64| RawFq2::new(f(i), f(i + 100));
        let x = Fq12::new(Fq4::new(q2(1), q2(2)), Fq4::new(q2(3), q2(4)), Fq4::new(q2(5), q2(6)));
        let a1 = ph::final_exponentiation(&x).unwrap();
        let a2 = ph::final_exp(&x).unwrap();
        let rm1 = -RawFr::one();
        let t = FieldElement::pow(&a1, rm1) * a1;
        if a1 != a2 { println!("MISMATCH final_exponentiation(x) != final_exp(x) on a generic element"); }
        else if t != Fq12::one() { println!("MISMATCH final_exponentiation(x)^r != 1"); }
        else { println!("OK"); }
        return;
    }
    if a[1] == "--divrem" {
        // replay --divrem <x: 128 hex digits> <m: 64 hex digits>: remainder of the real U512::divrem
        use sm9_kani::common::*;
        let mut xb = [0u8; 64];
        for i in 0..64 { xb[i] = u8::from_str_radix(&a[2][2 * i..2 * i + 2], 16).expect("hex"); }
        let mut mb = [0u8; 32];
        for i in 0..32 { mb[i] = u8::from_str_radix(&a[3][2 * i..2 * i + 2], 16).expect("hex"); }
        let x = U512::from_slice(&xb).unwrap();
        let m = U256::from_slice(&mb).unwrap();
        let (_q, r) = x.divrem(&m);
        let l = u256_limbs(&r);
        println!("{:016x}{:016x}{:016x}{:016x}", l[3], l[2], l[1], l[0]);
        return;
    }
    if a[1] == "--pow" {
        // replay --pow <fr|fq> <a hex> <k hex>: a^k through the public pow; --pow gt "" <k hex>: Gt::pow vs square-and-multiply
        use sm9_core::{pairing, Fr, Fq, Group, Gt, G1, G2};
        let bytes = |h: &String| { let mut b = [0u8; 32]; for i in 0..32 { b[i] = u8::from_str_radix(&h[2 * i..2 * i + 2], 16).expect("hex"); } b };
        let hex = |b: &[u8]| b.iter().map(|x| format!("{:02x}", x)).collect::<String>();
        match a[2].as_str() {
            "fr" => println!("{}", hex(&Fr::from_slice(&bytes(&a[3])).unwrap().pow(Fr::from_slice(&bytes(&a[4])).unwrap()).to_slice())),
            "fq" => println!("{}", hex(&Fq::from_slice(&bytes(&a[3])).unwrap().pow(Fq::from_slice(&bytes(&a[4])).unwrap()).to_slice())),
            _ => {
                let kb = bytes(&a[4]);
                let g = pairing(G1::one(), G2::one());
                let got = g.pow(Fr::from_slice(&kb).unwrap());
                let mut want = Gt::one();
                for byte in kb.iter() { for i in (0..8).rev() { want = want * want; if (byte >> i) & 1 == 1 { want = want * g; } } }
                if got == want { println!("OK"); } else { println!("MISMATCH Gt::pow differs from square-and-multiply with Gt::mul"); }
            }
        }
        return;
    }
    if a[1] == "--smul" {
        // replay --smul <g1|g2> <mode a|j> <k hex64>: P * k and k * P for P = 3*G in the given representation;
        // prints the affine coordinates of the result (or INF)
        use sm9_core::{Fr, Group, G1, G2};
        let mut kb = [0u8; 32];
        for i in 0..32 { kb[i] = u8::from_str_radix(&a[4][2 * i..2 * i + 2], 16).expect("hex"); }
        let k = Fr::from_slice(&kb).expect("scalar");
        let three = Fr::from_slice(&[3]).unwrap();
        let hex = |b: &[u8]| b.iter().map(|x| format!("{:02x}", x)).collect::<String>();
        if a[2] == "g1" {
            let mut p = G1::one() * three;
            if a[3] == "a" { p.normalize(); }
            let (r1, r2) = (p * k, k * p);
            if r1 != r2 { println!("MISMATCH P*k != k*P"); }
            if r1.is_zero() { println!("INF"); } else { println!("{}", hex(&r1.to_slice())); }
        } else {
            let mut p = G2::one() * three;
            if a[3] == "a" { p.normalize(); }
            let (r1, r2) = (p * k, k * p);
            if r1 != r2 { println!("MISMATCH P*k != k*P"); }
            if r1.is_zero() { println!("INF"); } else { println!("{}", hex(&r1.to_slice())); }
        }
        return;
    }
    if a[1] == "--wrap" {
        // replay --wrap <pairing|fast|prepared> <modes>: representatives a = normalised, j = un-normalised
        // library value, o = non-canonical identity (X - X); compares with the value on normalised inputs / one
        use sm9_core::{fast_pairing, pairing, Fr, G2Prepared, Group, Gt, G1, G2};
        let k = |n: u8| Fr::from_slice(&[n]).unwrap();
        let mk1 = |m: u8| -> (G1, Option<G1>) {
            let base = G1::one() * k(5);
            let mut n = base; n.normalize();
            match m { b'a' => (n, Some(n)), b'o' => (base - base, None), _ => (base + base - n, Some(n)) }
        };
        let mk2 = |m: u8| -> (G2, Option<G2>) {
            let base = G2::one() * k(7);
            let mut n = base; n.normalize();
            match m { b'a' => (n, Some(n)), b'o' => (base - base, None), _ => (base + base - n, Some(n)) }
        };
        let mb = a[3].as_bytes();
        let ((p, pn), (q, qn)) = (mk1(mb[0]), mk2(mb[1]));
        let run = |p: G1, q: G2| -> Gt {
            match a[2].as_str() {
                "pairing" => pairing(p, q),
                "fast" => fast_pairing(p, q),
                _ => { let pr = G2Prepared::from(q); let x = pr.pairing(&p); let y = pr.pairing(&p); if x != y { println!("MISMATCH prepared reuse"); } x }
            }
        };
        let r = std::panic::catch_unwind(|| run(p, q));
        match r {
            Err(_) => println!("PANIC in {}", a[2]),
            Ok(g) => {
                let want = match (pn, qn) { (Some(pn), Some(qn)) => pairing(pn, qn), _ => Gt::one() };
                if g == want { println!("OK {} {}", a[2], a[3]); } else { println!("MISMATCH {}({}) differs from the value on normalised inputs / one", a[2], a[3]); }
            }
        }
        return;
    }
    if a[1] == "--selftest" {
        // harness self-test (NOT a verification claim): run every body natively on random inputs
        let n: u64 = a.get(2).and_then(|x| x.parse().ok()).unwrap_or(200);
        let seed: u64 = a.get(3).and_then(|x| x.parse().ok()).unwrap_or(1);
        let only = a.get(4).cloned();
        std::panic::set_hook(Box::new(|_| {}));
        let mut bad = 0;
        for (name, f) in sm9_kani::registry() {
            if let Some(o) = &only { if !name.contains(o.as_str()) { continue; } }
            let (mut ok, mut asm, mut viol) = (0, 0, 0);
            let mut first = String::new();
            for i in 0..n {
                sym::set_random(seed.wrapping_mul(0x9E3779B97F4A7C15).wrapping_add(i * 7919 + 1));
                match std::panic::catch_unwind(f) {
                    Ok(()) => ok += 1,
                    Err(e) => {
                        if e.downcast_ref::<AssumeFailed>().is_some() { asm += 1; } else {
                            viol += 1;
                            if first.is_empty() {
                                first = if let Some(s) = e.downcast_ref::<&str>() { s.to_string() } else if let Some(s) = e.downcast_ref::<String>() { s.clone() } else { String::from("panic") };
                            }
                        }
                    }
                }
            }
            println!("SELFTEST {:40} ok={} assume_failed={} violations={} {}", name, ok, asm, viol, first);
            if viol > 0 { bad += 1; }
        }
        std::process::exit(if bad > 0 { 1 } else { 0 });
    }
    let f = match sm9_kani::registry().into_iter().find(|(n, _)| *n == a[1]) {
        Some((_, f)) => f,
        None => {
            eprintln!("unknown harness {}", a[1]);
            std::process::exit(4);
        }
    };
    let mut vals: Vec<Vec<u8>> = Vec::new();
    if a.len() > 2 && !a[2].is_empty() {
        for h in a[2].split(',') {
            let h = h.trim();
            let mut v = Vec::new();
            let mut i = 0;
            while i + 1 < h.len() + 1 && i + 2 <= h.len() {
                v.push(u8::from_str_radix(&h[i..i + 2], 16).expect("hex"));
                i += 2;
            }
            vals.push(v);
        }
    }
    sym::set_input(vals);
    let r = std::panic::catch_unwind(f);
    match r {
        Ok(()) => {
            println!("REPLAY-OK {}", a[1]);
        }
        Err(e) => {
            if e.downcast_ref::<AssumeFailed>().is_some() {
                println!("REPLAY-ASSUME-FAILED {}", a[1]);
                std::process::exit(3);
            }
            let msg = if let Some(s) = e.downcast_ref::<&str>() {
                s.to_string()
            } else if let Some(s) = e.downcast_ref::<String>() {
                s.clone()
            } else {
                String::from("panic")
            };
            println!("REPLAY-VIOLATION {} :: {}", a[1], msg);
            std::process::exit(1);
        }
    }
}
