//! k_dec_*, k_enc_*, k_gt_*: point decoders over arbitrary byte strings with symbolic length
//! (C08, C09 funnel, C18), encoders / byte layouts (C10, C11). Kernels, square roots and
//! AffineG::new are replaced by their contract models (Kani only); natively the real code runs.
use crate::common::*;
use crate::{cover, harnesses};
use sm9_core::{Group, G1, G2};

#[derive(Copy, Clone, PartialEq)]
pub enum Kind {
    Raw,
    Unc,
    Cmp,
}
pub const fn fmt_len(g2: bool, k: Kind) -> usize {
    let c = if g2 { 64 } else { 32 };
    match k {
        Kind::Raw => 2 * c,
        Kind::Unc => 2 * c + 1,
        Kind::Cmp => c + 1,
    }
}
/// the format definition, written from the standard: exact length, exact prefix, every
/// 32-byte coordinate an integer below q
pub fn well_formed(g2: bool, k: Kind, b: &[u8]) -> bool {
    if b.len() != fmt_len(g2, k) {
        return false;
    }
    let off = match k {
        Kind::Raw => 0,
        Kind::Unc => {
            if b[0] != 4 {
                return false;
            }
            1
        }
        Kind::Cmp => {
            if b[0] != 2 && b[0] != 3 {
                return false;
            }
            1
        }
    };
    let mut ok = true;
    let mut i = off;
    while i + 32 <= b.len() {
        if !lt(&be_value4(&b[i..i + 32]), &Q) {
            ok = false;
        }
        i += 32;
    }
    ok
}
/// decode and, on success, re-encode in the same format: (Ok?, re-encoding, its length)
fn dec_enc(g2: bool, k: Kind, b: &[u8]) -> (bool, [u8; 130], usize) {
    let mut out = [0u8; 130];
    let n = fmt_len(g2, k);
    let ok;
    if !g2 {
        let r = match k {
            Kind::Raw => G1::from_slice(b),
            Kind::Unc => G1::from_uncompressed(b),
            Kind::Cmp => G1::from_compressed(b),
        };
        ok = r.is_ok();
        if let Ok(p) = r {
            match k {
                Kind::Raw => out[..64].copy_from_slice(&p.to_slice()),
                Kind::Unc => out[..65].copy_from_slice(&p.to_uncompressed()),
                Kind::Cmp => out[..33].copy_from_slice(&p.to_compressed()),
            }
        }
    } else {
        let r = match k {
            Kind::Raw => G2::from_slice(b),
            Kind::Unc => G2::from_uncompressed(b),
            Kind::Cmp => G2::from_compressed(b),
        };
        ok = r.is_ok();
        if let Ok(p) = r {
            match k {
                Kind::Raw => out[..128].copy_from_slice(&p.to_slice()),
                Kind::Unc => out[..129].copy_from_slice(&p.to_uncompressed()),
                Kind::Cmp => out[..65].copy_from_slice(&p.to_compressed()),
            }
        }
    }
    (ok, out, n)
}
// strictness / totality / no spurious rejection (no re-encoding: cheap product contract suffices)
fn check_strict(g2: bool, k: Kind, b: &[u8]) {
    let wf = well_formed(g2, k, b);
    let ok = is_ok(g2, k, b);
    assert!(!ok || wf, "decoder returned Ok for a string that is not a well-formed encoding (length / prefix / coordinate >= q)");
    #[cfg(kani)]
    unsafe {
        use ghost::*;
        assert!(ok || !wf || SQRT_NONE || NEW_ERR, "well-formed encoding rejected although square root and curve/subgroup validation succeeded");
        assert!(!ok || (NEW_CALLS >= 1 && !NEW_ERR), "decoder accepted a point without (successful) validated construction");
    }
}
fn check_one(g2: bool, k: Kind, b: &[u8]) {
    let wf = well_formed(g2, k, b);
    let (ok, re, n) = dec_enc(g2, k, b);
    // totality: we got here without a panic (a panic inside the decoder is the violation)
    assert!(!ok || wf, "decoder returned Ok for a string that is not a well-formed encoding (length / prefix / coordinate >= q)");
    if ok {
        let mut c = 0;
        while c < 5 {
            let mut i = 0;
            while i < 32 {
                let j = 32 * c + i;
                if j < n {
                    assert!(re[j] == b[j], "re-encoding the decoded point does not give back the input bytes");
                }
                i += 1;
            }
            c += 1;
        }
    }
    #[cfg(kani)]
    unsafe {
        use ghost::*;
        // no spurious rejection: Err only if malformed, or the square root / the validated constructor said no
        assert!(ok || !wf || SQRT_NONE || NEW_ERR, "well-formed encoding rejected although square root and curve/subgroup validation succeeded");
        // every accepted point went through the validated constructor
        assert!(!ok || (NEW_CALLS >= 1 && !NEW_ERR), "decoder accepted a point without (successful) validated construction");
    }
}
// native replay helper: transplant the distinguishing features of a counterexample (its prefix
// byte, which coordinates are >= q) onto encodings of real curve points k*G, because the solver's
// coordinates satisfied only the *contract* of the curve check, not the curve equation.
#[cfg(not(kani))]
fn transplants(g2: bool, k: Kind, b: &[u8]) -> Vec<Vec<u8>> {
    let mut v = Vec::new();
    let n = fmt_len(g2, k);
    let off = if k == Kind::Raw { 0 } else { 1 };
    // base points: k*G, and for G1 also real curve points with a SMALL x (2^64-j, j, 2^128-j), obtained from the
    // library's own decompression: x + q still fits 32 bytes and shares q's top limb(s), which is where a faulty
    // range comparison shows
    let mut bases: Vec<Vec<u8>> = Vec::new();
    for m in 1u8..=48 {
        let s = sm9_core::Fr::from_slice(&[m]).unwrap();
        let e: Vec<u8> = if !g2 {
            let p = G1::one() * s;
            match k {
                Kind::Raw => p.to_slice().to_vec(),
                Kind::Unc => p.to_uncompressed().to_vec(),
                Kind::Cmp => p.to_compressed().to_vec(),
            }
        } else {
            let p = G2::one() * s;
            match k {
                Kind::Raw => p.to_slice().to_vec(),
                Kind::Unc => p.to_uncompressed().to_vec(),
                Kind::Cmp => p.to_compressed().to_vec(),
            }
        };
        bases.push(e);
    }
    if !g2 {
        for j in 1u64..=40 {
            for x0 in [[0u64.wrapping_sub(j), 0, 0, 0], [j, 0, 0, 0], [0u64.wrapping_sub(j), u64::MAX, 0, 0]] {
                let mut c = vec![2u8];
                c.extend_from_slice(&be_bytes32(&x0));
                if let Ok(p) = G1::from_compressed(&c) {
                    for p in [p, -p] {
                        bases.push(match k {
                            Kind::Raw => p.to_slice().to_vec(),
                            Kind::Unc => p.to_uncompressed().to_vec(),
                            Kind::Cmp => p.to_compressed().to_vec(),
                        });
                    }
                }
            }
        }
    }
    for mut e in bases {
        // independent of the counterexample: the valid encoding itself and, per coordinate, its non-canonical alias
        // coordinate + q (when it still fits 32 bytes) - the alias must be rejected
        v.push(e.clone());
        let mut i = off;
        while i + 32 <= n {
            let s5 = add5(&be_value4(&e[i..i + 32]), &Q);
            if s5[4] == 0 {
                let mut a = e.clone();
                a[i..i + 32].copy_from_slice(&be_bytes32(&[s5[0], s5[1], s5[2], s5[3]]));
                v.push(a);
            }
            i += 32;
        }
        if b.len() == n {
            if off == 1 {
                e[0] = b[0];
            }
            let mut i = off;
            while i + 32 <= n {
                if !lt(&be_value4(&b[i..i + 32]), &Q) {
                    let s5 = add5(&be_value4(&e[i..i + 32]), &Q);
                    if s5[4] == 0 {
                        e[i..i + 32].copy_from_slice(&be_bytes32(&[s5[0], s5[1], s5[2], s5[3]]));
                    } else {
                        e[i..i + 32].copy_from_slice(&[0xffu8; 32]);
                    }
                }
                i += 32;
            }
        } else if b.len() < n {
            e.truncate(b.len());
        } else {
            e.extend_from_slice(&b[n..]);
        }
        v.push(e);
    }
    v
}
// exact-length strings: arbitrary content (prefix, coordinates): strictness, re-encoding, no
// spurious rejection, no panic
fn dec_harness<const N: usize>(g2: bool, k: Kind) {
    let buf: [u8; N] = sym::bytes();
    check_strict(g2, k, &buf);
    #[cfg(not(kani))]
    for t in transplants(g2, k, &buf) {
        check_strict(g2, k, &t);
    }
    cover!(well_formed(g2, k, &buf), "well-formed input");
    cover!(!well_formed(g2, k, &buf), "malformed input");
}
// round trip: a well-formed string that decodes re-encodes to itself (encode/decode bijection model)
fn decenc_harness<const N: usize>(g2: bool, k: Kind) {
    let buf: [u8; N] = sym::bytes();
    sym::assume(well_formed(g2, k, &buf));
    check_one(g2, k, &buf);
    #[cfg(not(kani))]
    for t in transplants(g2, k, &buf) {
        check_one(g2, k, &t);
    }
}
// every other length 0..=140 (each length concrete inside the loop so that the decoder's own length
// test folds; arbitrary content): Err, no panic
fn is_ok(g2: bool, k: Kind, b: &[u8]) -> bool {
    if !g2 {
        match k {
            Kind::Raw => G1::from_slice(b).is_ok(),
            Kind::Unc => G1::from_uncompressed(b).is_ok(),
            Kind::Cmp => G1::from_compressed(b).is_ok(),
        }
    } else {
        match k {
            Kind::Raw => G2::from_slice(b).is_ok(),
            Kind::Unc => G2::from_uncompressed(b).is_ok(),
            Kind::Cmp => G2::from_compressed(b).is_ok(),
        }
    }
}
fn dec_len_harness<const N: usize>(g2: bool, k: Kind) {
    let buf: [u8; N] = sym::bytes();
    let mut len = 0;
    while len <= N {
        if len != fmt_len(g2, k) {
            assert!(!is_ok(g2, k, &buf[..len]), "decoder accepted a string of the wrong length");
        }
        len += 1;
    }
}

// ---- encoders: byte layout of a normalised point with arbitrary canonical coordinates
#[allow(dead_code)]
fn fq_of(c: &[u64; 4]) -> sm9_core::Fq {
    sm9_core::Fq::from_slice(&be_bytes32(c)).unwrap()
}
// stored limbs a; canonical value c: under Kani decode is modelled as the identity (layout-only model: byte
// placement cannot depend on which bijection decode is), natively the real decode is read back
fn raw_and_canon(a: [u64; 4]) -> (sm9_core::Fq, [u64; 4]) {
    let f = pub_fq(fq_from_raw(a));
    #[cfg(kani)]
    let c = a;
    #[cfg(not(kani))]
    let c = be_value4(&f.to_slice());
    (f, c)
}
fn enc_g1() {
    let ((fx, cx), (fy, cy)) = (raw_and_canon(any_below(&Q)), raw_and_canon(any_below(&Q)));
    let p = G1::new(fx, fy, sm9_core::Fq::one());
    let (bx, by) = (be_bytes32(&cx), be_bytes32(&cy));
    let s = p.to_slice();
    let u = p.to_uncompressed();
    let c = p.to_compressed();
    assert!(u[0] == 4, "uncompressed prefix 0x04");
    assert!(c[0] == 2 + (cy[0] & 1) as u8, "compressed prefix 0x02 even / 0x03 odd y");
    let mut i = 0;
    while i < 32 {
        assert!(s[i] == bx[i] && s[32 + i] == by[i], "raw: x then y, big-endian");
        assert!(u[1 + i] == bx[i] && u[33 + i] == by[i], "uncompressed: x then y");
        assert!(c[1 + i] == bx[i], "compressed: x");
        i += 1;
    }
    cover!(cy[0] & 1 == 1, "odd y");
}
fn enc_g2(which: u8) {
    let ((fx0, x0), (fx1, x1)) = (raw_and_canon(any_below(&Q)), raw_and_canon(any_below(&Q)));
    let ((fy0, y0), (fy1, y1)) = (raw_and_canon(any_below(&Q)), raw_and_canon(any_below(&Q)));
    let x = sm9_core::Fq2::new(fx0, fx1);
    let y = sm9_core::Fq2::new(fy0, fy1);
    let p = G2::new(x, y, sm9_core::Fq2::one());
    let (bx0, bx1, by0, by1) = (be_bytes32(&x0), be_bytes32(&x1), be_bytes32(&y0), be_bytes32(&y1));
    if which == 0 {
        let s = p.to_slice();
        let mut i = 0;
        while i < 32 {
            assert!(s[i] == bx1[i] && s[32 + i] == bx0[i] && s[64 + i] == by1[i] && s[96 + i] == by0[i], "raw: imaginary before real, x before y");
            i += 1;
        }
    } else if which == 1 {
        let u = p.to_uncompressed();
        assert!(u[0] == 4, "uncompressed prefix 0x04");
        let mut i = 0;
        while i < 32 {
            assert!(u[1 + i] == bx1[i] && u[33 + i] == bx0[i] && u[65 + i] == by1[i] && u[97 + i] == by0[i], "uncompressed layout");
            i += 1;
        }
    } else {
        let c = p.to_compressed();
        assert!(c[0] == 2 + (y0[0] & 1) as u8, "compressed prefix: parity of the real part of y");
        let mut i = 0;
        while i < 32 {
            assert!(c[1 + i] == bx1[i] && c[33 + i] == bx0[i], "compressed layout");
            i += 1;
        }
    }
    cover!(y0[0] & 1 == 1, "odd real part of y");
}
// Gt: 384 bytes = 12 coefficients, highest first, each below q; == is coefficient equality
fn gt_bytes() {
    // stored limbs a_i; under Kani decode is modelled as the identity (layout-only model), natively
    // the real decode runs and c_i is read back through Fq::to_slice
    let mut c = [[0u64; 4]; 12];
    let mut f = [fq_from_raw([0; 4]); 12];
    let mut i = 0;
    while i < 12 {
        let a = any_below(&Q);
        f[i] = fq_from_raw(a);
        #[cfg(kani)]
        {
            c[i] = a;
        }
        #[cfg(not(kani))]
        {
            c[i] = be_value4(&f[i].to_slice());
        }
        i += 1;
    }
    let q2 = |a: usize| RawFq2::new(f[a], f[a + 1]);
    let q4 = |a: usize| Fq4::new(q2(a), q2(a + 2));
    let g = pub_gt(Fq12::new(q4(0), q4(4), q4(8)));
    let s = g.to_slice();
    // coefficient i (in c0.c0.c0, c0.c0.c1, c0.c1.c0, ... order) sits at 32-byte slot 11 - i
    let mut i = 0;
    while i < 12 {
        let want = be_bytes32(&c[i]);
        let mut j = 0;
        while j < 32 {
            assert!(s[32 * (11 - i) + j] == want[j], "Gt::to_slice: highest coefficient first, each limb big-endian below q");
            j += 1;
        }
        i += 1;
    }
}
fn gt_eq() {
    let mut a = [fq_from_raw([0; 4]); 12];
    let mut b = [fq_from_raw([0; 4]); 12];
    let mut all = true;
    let mut i = 0;
    while i < 12 {
        let (x, y) = (any_below(&Q), any_below(&Q));
        if !eq4(&x, &y) {
            all = false;
        }
        a[i] = fq_from_raw(x);
        b[i] = fq_from_raw(y);
        i += 1;
    }
    let mk = |f: &[RawFq; 12]| {
        let q2 = |a: usize| RawFq2::new(f[a], f[a + 1]);
        let q4 = |a: usize| Fq4::new(q2(a), q2(a + 2));
        pub_gt(Fq12::new(q4(0), q4(4), q4(8)))
    };
    assert!((mk(&a) == mk(&b)) == all, "Gt == is equality of all twelve canonical coefficients");
    cover!(all, "equal");
}

macro_rules! dec_h {
    ($($name:ident, $lname:ident, $rname:ident, $n:expr, $unw:expr, $g2:expr, $k:expr;)*) => {
        harnesses! { registry;
            $(
            #[kani::unwind($unw)]
            #[kani::stub(core::arch::x86_64::_addcarry_u64, addcarry_stub)]
            #[kani::stub(core::arch::x86_64::_subborrow_u64, subborrow_stub)]
            #[kani::stub(sm9_core::verif_hooks::U256::mul, mul_havoc_z)]
            #[kani::stub(sm9_core::verif_hooks::U256::square, square_model)]
            #[kani::stub(sm9_core::verif_hooks::U256::invert, invert_model)]
            #[kani::stub(sm9_core::verif_hooks::RawFq::sum_of_products, sop_havoc)]
            #[kani::stub(sm9_core::verif_hooks::RawFq::sqrt, fq_sqrt_model)]
            #[kani::stub(sm9_core::verif_hooks::RawFq2::sqrt, fq2_sqrt_model)]
            #[kani::stub(sm9_core::verif_hooks::AffineG::new, affine_new_model)]
            fn $name() { dec_harness::<$n>($g2, $k) }
            #[kani::unwind($unw)]
            #[kani::stub(core::arch::x86_64::_addcarry_u64, addcarry_stub)]
            #[kani::stub(core::arch::x86_64::_subborrow_u64, subborrow_stub)]
            #[kani::stub(sm9_core::verif_hooks::U256::mul, mul_model)]
            #[kani::stub(sm9_core::verif_hooks::U256::square, square_model)]
            #[kani::stub(sm9_core::verif_hooks::U256::invert, invert_model)]
            #[kani::stub(sm9_core::verif_hooks::RawFq::sum_of_products, sop_havoc)]
            #[kani::stub(sm9_core::verif_hooks::RawFq::sqrt, fq_sqrt_model)]
            #[kani::stub(sm9_core::verif_hooks::RawFq2::sqrt, fq2_sqrt_model)]
            #[kani::stub(sm9_core::verif_hooks::AffineG::new, affine_new_model)]
            fn $rname() { decenc_harness::<$n>($g2, $k) }
            #[kani::unwind(143)]
            #[kani::stub(core::arch::x86_64::_addcarry_u64, addcarry_stub)]
            #[kani::stub(core::arch::x86_64::_subborrow_u64, subborrow_stub)]
            #[kani::stub(sm9_core::verif_hooks::U256::mul, mul_model)]
            #[kani::stub(sm9_core::verif_hooks::U256::square, square_model)]
            #[kani::stub(sm9_core::verif_hooks::U256::invert, invert_model)]
            #[kani::stub(sm9_core::verif_hooks::RawFq::sum_of_products, sop_havoc)]
            #[kani::stub(sm9_core::verif_hooks::RawFq::sqrt, fq_sqrt_model)]
            #[kani::stub(sm9_core::verif_hooks::RawFq2::sqrt, fq2_sqrt_model)]
            #[kani::stub(sm9_core::verif_hooks::AffineG::new, affine_new_model)]
            fn $lname() { dec_len_harness::<140>($g2, $k) }
            )*
            #[kani::unwind(34)]
            #[kani::stub(core::arch::x86_64::_addcarry_u64, addcarry_stub)]
            #[kani::stub(core::arch::x86_64::_subborrow_u64, subborrow_stub)]
            #[kani::stub(sm9_core::verif_hooks::U256::mul, mul_dec_id)]
            fn k_enc_g1() { enc_g1() }
            #[kani::unwind(34)]
            #[kani::stub(core::arch::x86_64::_addcarry_u64, addcarry_stub)]
            #[kani::stub(core::arch::x86_64::_subborrow_u64, subborrow_stub)]
            #[kani::stub(sm9_core::verif_hooks::U256::mul, mul_dec_id)]
            fn k_enc_g2_raw() { enc_g2(0) }
            #[kani::unwind(34)]
            #[kani::stub(core::arch::x86_64::_addcarry_u64, addcarry_stub)]
            #[kani::stub(core::arch::x86_64::_subborrow_u64, subborrow_stub)]
            #[kani::stub(sm9_core::verif_hooks::U256::mul, mul_dec_id)]
            fn k_enc_g2_uncompressed() { enc_g2(1) }
            #[kani::unwind(34)]
            #[kani::stub(core::arch::x86_64::_addcarry_u64, addcarry_stub)]
            #[kani::stub(core::arch::x86_64::_subborrow_u64, subborrow_stub)]
            #[kani::stub(sm9_core::verif_hooks::U256::mul, mul_dec_id)]
            fn k_enc_g2_compressed() { enc_g2(2) }
            #[kani::unwind(34)]
            #[kani::stub(core::arch::x86_64::_addcarry_u64, addcarry_stub)]
            #[kani::stub(core::arch::x86_64::_subborrow_u64, subborrow_stub)]
            #[kani::stub(sm9_core::verif_hooks::U256::mul, mul_dec_id)]
            fn k_gt_bytes() { gt_bytes() }
            #[kani::unwind(34)]
            fn k_gt_eq() { gt_eq() }
        }
    };
}
dec_h! {
    k_dec_g1_raw, k_declen_g1_raw, k_decenc_g1_raw, 64, 34, false, Kind::Raw;
    k_dec_g1_uncompressed, k_declen_g1_uncompressed, k_decenc_g1_uncompressed, 65, 34, false, Kind::Unc;
    k_dec_g1_compressed, k_declen_g1_compressed, k_decenc_g1_compressed, 33, 34, false, Kind::Cmp;
    k_dec_g2_raw, k_declen_g2_raw, k_decenc_g2_raw, 128, 34, true, Kind::Raw;
    k_dec_g2_uncompressed, k_declen_g2_uncompressed, k_decenc_g2_uncompressed, 129, 34, true, Kind::Unc;
    k_dec_g2_compressed, k_declen_g2_compressed, k_decenc_g2_compressed, 65, 34, true, Kind::Cmp;
}
