//! Stubs, contracts and independent limb-level reference arithmetic shared by all harnesses.
//!
//! Every harness body is ordinary Rust over the `sym` input source below: compiled by Kani the
//! inputs are `kani::any()` (symbolic, the solver decides); compiled natively (src/bin/replay.rs)
//! the very same body runs on the REAL kernels (no stubs exist natively) with the inputs taken
//! from a counterexample, which is how a solver model is replayed before it is reported.
pub use sm9_core::verif_hooks::*;
pub use sm9_core::{One, Zero};

pub mod sym {
    #[cfg(not(kani))]
    use std::cell::RefCell;
    #[cfg(not(kani))]
    thread_local! {
        pub static INPUT: RefCell<(Vec<Vec<u8>>, usize)> = RefCell::new((Vec::new(), 0));
        pub static EXHAUSTED: RefCell<bool> = RefCell::new(false);
    }
    #[cfg(not(kani))]
    pub fn set_input(v: Vec<Vec<u8>>) {
        INPUT.with(|i| *i.borrow_mut() = (v, 0));
        EXHAUSTED.with(|e| *e.borrow_mut() = false);
    }
    #[cfg(not(kani))]
    fn next(n: usize) -> Vec<u8> {
        INPUT.with(|i| {
            let mut i = i.borrow_mut();
            let k = i.1;
            i.1 += 1;
            match i.0.get(k) {
                Some(v) if v.len() == n => v.clone(),
                // past the recorded inputs: these are values that only a contract stub consumed
                _ => {
                    EXHAUSTED.with(|e| *e.borrow_mut() = true);
                    vec![0u8; n]
                }
            }
        })
    }
    #[cfg(kani)]
    pub fn u64() -> u64 {
        kani::any()
    }
    #[cfg(not(kani))]
    pub fn u64() -> u64 {
        let b = next(8);
        u64::from_le_bytes([b[0], b[1], b[2], b[3], b[4], b[5], b[6], b[7]])
    }
    #[cfg(kani)]
    pub fn u8() -> u8 {
        kani::any()
    }
    #[cfg(not(kani))]
    pub fn u8() -> u8 {
        next(1)[0]
    }
    #[cfg(kani)]
    pub fn bool() -> bool {
        kani::any()
    }
    #[cfg(not(kani))]
    pub fn bool() -> bool {
        next(1)[0] & 1 == 1
    }
    #[cfg(kani)]
    pub fn usize() -> usize {
        kani::any()
    }
    #[cfg(not(kani))]
    pub fn usize() -> usize {
        let b = next(8);
        u64::from_le_bytes([b[0], b[1], b[2], b[3], b[4], b[5], b[6], b[7]]) as usize
    }
    #[cfg(kani)]
    pub fn assume(c: bool) {
        kani::assume(c)
    }
    #[cfg(not(kani))]
    pub fn assume(c: bool) {
        if !c {
            std::panic::panic_any(super::AssumeFailed);
        }
    }
    pub fn bytes<const N: usize>() -> [u8; N] {
        let mut b = [0u8; N];
        let mut i = 0;
        while i < N {
            b[i] = u8();
            i += 1;
        }
        b
    }
}
pub struct AssumeFailed;
#[cfg(kani)]
#[macro_export]
macro_rules! cover {
    ($c:expr, $m:expr) => {
        kani::cover!($c, $m)
    };
}
#[cfg(not(kani))]
#[macro_export]
macro_rules! cover {
    ($c:expr, $m:expr) => {
        let _ = $c;
    };
}
/// harnesses!{ registry_fn; #[kani attrs] fn name() { body } ... }
#[macro_export]
macro_rules! harnesses {
    ($reg:ident; $( $(#[$m:meta])* fn $name:ident() $body:block )*) => {
        $( #[cfg_attr(kani, kani::proof)] $(#[cfg_attr(kani, $m)])* pub fn $name() { $body; $crate::cover!(true, "end of harness reached"); } )*
        pub fn $reg() -> Vec<(&'static str, fn())> {
            vec![ $( (stringify!($name), $name as fn()) ),* ]
        }
    };
}

// ---- stub 1: Intel ADC/SBB intrinsics (ark-ff `asm` feature) by the u128 formula ark-ff
// itself uses when the feature is off.
pub unsafe fn addcarry_stub(c_in: u8, a: u64, b: u64, out: &mut u64) -> u8 {
    let tmp = a as u128 + b as u128 + (c_in != 0) as u128;
    *out = tmp as u64;
    (tmp >> 64) as u8
}
pub unsafe fn subborrow_stub(c_in: u8, a: u64, b: u64, out: &mut u64) -> u8 {
    let tmp = (1u128 << 64) + (a as u128) - (b as u128) - ((c_in != 0) as u128);
    *out = tmp as u64;
    u8::from(tmp >> 64 == 0)
}

pub const Q: [u64; 4] = [
    0xE56F9B27E351457D,
    0x21F2934B1A7AEEDB,
    0xD603AB4FF58EC745,
    0xB640000002A3A6F1,
];
pub const R: [u64; 4] = [
    0xE56EE19CD69ECF25,
    0x49F2934B18EA8BEE,
    0xD603AB4FF58EC744,
    0xB640000002A3A6F1,
];

#[inline(always)]
pub fn lt(a: &[u64; 4], b: &[u64; 4]) -> bool {
    if a[3] != b[3] {
        return a[3] < b[3];
    }
    if a[2] != b[2] {
        return a[2] < b[2];
    }
    if a[1] != b[1] {
        return a[1] < b[1];
    }
    a[0] < b[0]
}
#[inline(always)]
pub fn eq4(a: &[u64; 4], b: &[u64; 4]) -> bool {
    a[0] == b[0] && a[1] == b[1] && a[2] == b[2] && a[3] == b[3]
}
#[inline(always)]
pub fn is0(a: &[u64; 4]) -> bool {
    a[0] == 0 && a[1] == 0 && a[2] == 0 && a[3] == 0
}
pub fn any4() -> [u64; 4] {
    [sym::u64(), sym::u64(), sym::u64(), sym::u64()]
}
pub fn any_below(p: &[u64; 4]) -> [u64; 4] {
    let a = any4();
    sym::assume(lt(&a, p));
    a
}
#[cfg(kani)]
fn havoc_below(p: &[u64; 4]) -> [u64; 4] {
    let a: [u64; 4] = [kani::any(), kani::any(), kani::any(), kani::any()];
    kani::assume(lt(&a, p));
    a
}

// ---- independent reference arithmetic on 4 limbs (written from the integers, with a fifth limb)
pub fn add5(a: &[u64; 4], b: &[u64; 4]) -> [u64; 5] {
    let t0 = a[0] as u128 + b[0] as u128;
    let t1 = a[1] as u128 + b[1] as u128 + (t0 >> 64);
    let t2 = a[2] as u128 + b[2] as u128 + (t1 >> 64);
    let t3 = a[3] as u128 + b[3] as u128 + (t2 >> 64);
    [t0 as u64, t1 as u64, t2 as u64, t3 as u64, (t3 >> 64) as u64]
}
// s - p over 5 limbs (caller guarantees s >= p), low four limbs returned
pub fn sub5(s: &[u64; 5], p: &[u64; 4]) -> [u64; 4] {
    let w = 1i128 << 64;
    let t0 = s[0] as i128 - p[0] as i128;
    let b0 = (t0 < 0) as i128;
    let t1 = s[1] as i128 - p[1] as i128 - b0;
    let b1 = (t1 < 0) as i128;
    let t2 = s[2] as i128 - p[2] as i128 - b1;
    let b2 = (t2 < 0) as i128;
    let t3 = s[3] as i128 - p[3] as i128 - b2;
    [
        (t0 + w * b0) as u64,
        (t1 + w * b1) as u64,
        (t2 + w * b2) as u64,
        (t3 + w * ((t3 < 0) as i128)) as u64,
    ]
}
pub fn ge5(s: &[u64; 5], p: &[u64; 4]) -> bool {
    s[4] != 0 || !lt(&[s[0], s[1], s[2], s[3]], p)
}
pub fn ref_add(a: &[u64; 4], b: &[u64; 4], p: &[u64; 4]) -> [u64; 4] {
    let s = add5(a, b);
    if ge5(&s, p) {
        sub5(&s, p)
    } else {
        [s[0], s[1], s[2], s[3]]
    }
}
pub fn ref_sub(a: &[u64; 4], b: &[u64; 4], p: &[u64; 4]) -> [u64; 4] {
    if lt(a, b) {
        let s = add5(a, p);
        sub5(&s, b)
    } else {
        sub5(&[a[0], a[1], a[2], a[3], 0], b)
    }
}
pub fn ref_neg(a: &[u64; 4], p: &[u64; 4]) -> [u64; 4] {
    if is0(a) {
        [0; 4]
    } else {
        sub5(&[p[0], p[1], p[2], p[3], 0], a)
    }
}
pub fn ref_half(a: &[u64; 4], p: &[u64; 4]) -> [u64; 4] {
    let s = if a[0] & 1 == 1 { add5(a, p) } else { [a[0], a[1], a[2], a[3], 0] };
    [
        (s[0] >> 1) | (s[1] << 63),
        (s[1] >> 1) | (s[2] << 63),
        (s[2] >> 1) | (s[3] << 63),
        (s[3] >> 1) | (s[4] << 63),
    ]
}

// ---- stub 2: arithmetic contracts (justified by engine L): result is some value below the modulus
#[cfg(kani)]
pub fn mul_havoc(this: &mut U256, _other: &U256, modulo: &U256, _inv: u64) {
    let m = [modulo[0], modulo[1], modulo[2], modulo[3]];
    *this = U256::from(havoc_below(&m));
}
#[cfg(kani)]
pub fn square_havoc(this: &mut U256, modulo: &U256, _inv: u64) {
    let m = [modulo[0], modulo[1], modulo[2], modulo[3]];
    *this = U256::from(havoc_below(&m));
}
#[cfg(kani)]
pub fn invert_havoc(this: &mut U256, modulo: &U256, _r2: &U256) {
    assert!(!this.is_zero(), "invert called on zero");
    let m = [modulo[0], modulo[1], modulo[2], modulo[3]];
    *this = U256::from(havoc_below(&m));
}
#[cfg(kani)]
pub fn sop_havoc<const T: usize>(_a: &[RawFq; T], _b: &[RawFq; T]) -> RawFq {
    fq_from_raw(havoc_below(&Q))
}
#[cfg(kani)]
pub fn divrem_havoc(_x: &U512, modulo: &U256) -> (Option<U256>, U256) {
    let m = [modulo[0], modulo[1], modulo[2], modulo[3]];
    (None, U256::from(havoc_below(&m)))
}
// deterministic, cheap, non-commutative "tag" used to check operand routing of multiplicative
// operator forms: every form must reach U256::mul with (self, other, modulus) in this order.
pub fn tagf(a: &[u64; 4], b: &[u64; 4]) -> [u64; 4] {
    [
        a[0] ^ b[0].rotate_left(1),
        a[1] ^ b[1].rotate_left(3),
        a[2] ^ b[2].rotate_left(5),
        a[3] ^ b[3].rotate_left(7),
    ]
}
pub fn mul_tag(this: &mut U256, other: &U256, modulo: &U256, inv: u64) {
    let a = [this[0], this[1], this[2], this[3]];
    let b = [other[0], other[1], other[2], other[3]];
    let mut t = tagf(&a, &b);
    t[0] ^= modulo[0];
    t[1] ^= inv;
    *this = U256::from(t);
}
