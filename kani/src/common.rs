//! Stubs, contracts and independent limb-level reference arithmetic shared by all harnesses.
//!
//! Every harness body is ordinary Rust over the `sym` input source below: compiled by Kani the
//! inputs are `kani::any()` (symbolic, the solver decides); compiled natively (src/bin/replay.rs)
//! the very same body runs on the REAL kernels (no stubs exist natively) with the inputs taken
//! from a counterexample, which is how a solver model is replayed before it is reported.
pub use sm9_core::verif_hooks::*;
pub use sm9_core::{One, Zero};

pub mod sym {
    #[cfg(not(kani))]
    use std::cell::RefCell;
    #[cfg(not(kani))]
    thread_local! {
        pub static INPUT: RefCell<(Vec<Vec<u8>>, usize)> = RefCell::new((Vec::new(), 0));
        pub static EXHAUSTED: RefCell<bool> = RefCell::new(false);
        pub static RANDOM: RefCell<Option<u64>> = RefCell::new(None);
    }
    #[cfg(not(kani))]
    pub fn set_random(seed: u64) {
        RANDOM.with(|r| *r.borrow_mut() = Some(seed | 1));
        INPUT.with(|i| *i.borrow_mut() = (Vec::new(), 0));
    }
    #[cfg(not(kani))]
    fn rnd() -> u64 {
        RANDOM.with(|r| {
            let mut r = r.borrow_mut();
            let mut x = r.unwrap();
            x ^= x << 13;
            x ^= x >> 7;
            x ^= x << 17;
            *r = Some(x);
            x
        })
    }
    #[cfg(not(kani))]
    pub fn set_input(v: Vec<Vec<u8>>) {
        INPUT.with(|i| *i.borrow_mut() = (v, 0));
        EXHAUSTED.with(|e| *e.borrow_mut() = false);
    }
    #[cfg(not(kani))]
    fn next(n: usize) -> Vec<u8> {
        if RANDOM.with(|r| r.borrow().is_some()) {
            // self-test mode: biased random bytes (boundary-heavy)
            let mode = rnd() % 8;
            let mut v = vec![0u8; n];
            for b in v.iter_mut() {
                *b = match mode {
                    0 => 0,
                    1 => 0xff,
                    2 => (rnd() % 4) as u8,
                    _ => rnd() as u8,
                };
            }
            if n == 8 && mode == 3 {
                // small usize / lengths
                let k = rnd() % 80;
                v = k.to_le_bytes().to_vec();
            }
            return v;
        }
        INPUT.with(|i| {
            let mut i = i.borrow_mut();
            let k = i.1;
            i.1 += 1;
            match i.0.get(k) {
                Some(v) if v.len() == n => v.clone(),
                // past the recorded inputs: these are values that only a contract stub consumed
                _ => {
                    EXHAUSTED.with(|e| *e.borrow_mut() = true);
                    vec![0u8; n]
                }
            }
        })
    }
    #[cfg(kani)]
    pub fn u64() -> u64 {
        kani::any()
    }
    #[cfg(not(kani))]
    pub fn u64() -> u64 {
        let b = next(8);
        u64::from_le_bytes([b[0], b[1], b[2], b[3], b[4], b[5], b[6], b[7]])
    }
    #[cfg(kani)]
    pub fn u8() -> u8 {
        kani::any()
    }
    #[cfg(not(kani))]
    pub fn u8() -> u8 {
        next(1)[0]
    }
    #[cfg(kani)]
    pub fn bool() -> bool {
        kani::any()
    }
    #[cfg(not(kani))]
    pub fn bool() -> bool {
        next(1)[0] & 1 == 1
    }
    #[cfg(kani)]
    pub fn usize() -> usize {
        kani::any()
    }
    #[cfg(not(kani))]
    pub fn usize() -> usize {
        let b = next(8);
        u64::from_le_bytes([b[0], b[1], b[2], b[3], b[4], b[5], b[6], b[7]]) as usize
    }
    #[cfg(kani)]
    pub fn assume(c: bool) {
        kani::assume(c)
    }
    #[cfg(not(kani))]
    pub fn assume(c: bool) {
        if !c {
            std::panic::panic_any(super::AssumeFailed);
        }
    }
    #[cfg(kani)]
    pub fn bytes<const N: usize>() -> [u8; N] {
        kani::any()
    }
    #[cfg(not(kani))]
    pub fn bytes<const N: usize>() -> [u8; N] {
        let v = next(N);
        let mut b = [0u8; N];
        b.copy_from_slice(&v);
        b
    }
}
pub struct AssumeFailed;
#[cfg(kani)]
#[macro_export]
macro_rules! cover {
    ($c:expr, $m:expr) => {
        kani::cover!($c, $m)
    };
}
#[cfg(not(kani))]
#[macro_export]
macro_rules! cover {
    ($c:expr, $m:expr) => {
        let _ = $c;
    };
}
/// harnesses!{ registry_fn; #[kani attrs] fn name() { body } ... }
#[macro_export]
macro_rules! harnesses {
    ($reg:ident; $( $(#[$m:meta])* fn $name:ident() $body:block )*) => {
        $( #[cfg_attr(kani, kani::proof)] $(#[cfg_attr(kani, $m)])* pub fn $name() { $body; $crate::cover!(true, "end of harness reached"); } )*
        pub fn $reg() -> Vec<(&'static str, fn())> {
            vec![ $( (stringify!($name), $name as fn()) ),* ]
        }
    };
}

// ---- stub 1: Intel ADC/SBB intrinsics (ark-ff `asm` feature) by the u128 formula ark-ff
// itself uses when the feature is off.
pub unsafe fn addcarry_stub(c_in: u8, a: u64, b: u64, out: &mut u64) -> u8 {
    let tmp = a as u128 + b as u128 + (c_in != 0) as u128;
    *out = tmp as u64;
    (tmp >> 64) as u8
}
pub unsafe fn subborrow_stub(c_in: u8, a: u64, b: u64, out: &mut u64) -> u8 {
    let tmp = (1u128 << 64) + (a as u128) - (b as u128) - ((c_in != 0) as u128);
    *out = tmp as u64;
    u8::from(tmp >> 64 == 0)
}

pub const Q: [u64; 4] = [
    0xE56F9B27E351457D,
    0x21F2934B1A7AEEDB,
    0xD603AB4FF58EC745,
    0xB640000002A3A6F1,
];
pub const R: [u64; 4] = [
    0xE56EE19CD69ECF25,
    0x49F2934B18EA8BEE,
    0xD603AB4FF58EC744,
    0xB640000002A3A6F1,
];

#[inline(always)]
pub fn lt(a: &[u64; 4], b: &[u64; 4]) -> bool {
    if a[3] != b[3] {
        return a[3] < b[3];
    }
    if a[2] != b[2] {
        return a[2] < b[2];
    }
    if a[1] != b[1] {
        return a[1] < b[1];
    }
    a[0] < b[0]
}
#[inline(always)]
pub fn eq4(a: &[u64; 4], b: &[u64; 4]) -> bool {
    a[0] == b[0] && a[1] == b[1] && a[2] == b[2] && a[3] == b[3]
}
#[inline(always)]
pub fn is0(a: &[u64; 4]) -> bool {
    a[0] == 0 && a[1] == 0 && a[2] == 0 && a[3] == 0
}
pub fn any4() -> [u64; 4] {
    [sym::u64(), sym::u64(), sym::u64(), sym::u64()]
}
pub fn any_below(p: &[u64; 4]) -> [u64; 4] {
    let a = any4();
    sym::assume(lt(&a, p));
    a
}
#[cfg(kani)]
fn havoc_below(p: &[u64; 4]) -> [u64; 4] {
    let a: [u64; 4] = [kani::any(), kani::any(), kani::any(), kani::any()];
    kani::assume(lt(&a, p));
    a
}

// ---- independent reference arithmetic on 4 limbs (written from the integers, with a fifth limb)
pub fn add5(a: &[u64; 4], b: &[u64; 4]) -> [u64; 5] {
    let t0 = a[0] as u128 + b[0] as u128;
    let t1 = a[1] as u128 + b[1] as u128 + (t0 >> 64);
    let t2 = a[2] as u128 + b[2] as u128 + (t1 >> 64);
    let t3 = a[3] as u128 + b[3] as u128 + (t2 >> 64);
    [t0 as u64, t1 as u64, t2 as u64, t3 as u64, (t3 >> 64) as u64]
}
// s - p over 5 limbs (caller guarantees s >= p), low four limbs returned
pub fn sub5(s: &[u64; 5], p: &[u64; 4]) -> [u64; 4] {
    let w = 1i128 << 64;
    let t0 = s[0] as i128 - p[0] as i128;
    let b0 = (t0 < 0) as i128;
    let t1 = s[1] as i128 - p[1] as i128 - b0;
    let b1 = (t1 < 0) as i128;
    let t2 = s[2] as i128 - p[2] as i128 - b1;
    let b2 = (t2 < 0) as i128;
    let t3 = s[3] as i128 - p[3] as i128 - b2;
    [
        (t0 + w * b0) as u64,
        (t1 + w * b1) as u64,
        (t2 + w * b2) as u64,
        (t3 + w * ((t3 < 0) as i128)) as u64,
    ]
}
pub fn ge5(s: &[u64; 5], p: &[u64; 4]) -> bool {
    s[4] != 0 || !lt(&[s[0], s[1], s[2], s[3]], p)
}
pub fn ref_add(a: &[u64; 4], b: &[u64; 4], p: &[u64; 4]) -> [u64; 4] {
    let s = add5(a, b);
    if ge5(&s, p) {
        sub5(&s, p)
    } else {
        [s[0], s[1], s[2], s[3]]
    }
}
pub fn ref_sub(a: &[u64; 4], b: &[u64; 4], p: &[u64; 4]) -> [u64; 4] {
    if lt(a, b) {
        let s = add5(a, p);
        sub5(&s, b)
    } else {
        sub5(&[a[0], a[1], a[2], a[3], 0], b)
    }
}
pub fn ref_neg(a: &[u64; 4], p: &[u64; 4]) -> [u64; 4] {
    if is0(a) {
        [0; 4]
    } else {
        sub5(&[p[0], p[1], p[2], p[3], 0], a)
    }
}
pub fn ref_half(a: &[u64; 4], p: &[u64; 4]) -> [u64; 4] {
    let s = if a[0] & 1 == 1 { add5(a, p) } else { [a[0], a[1], a[2], a[3], 0] };
    [
        (s[0] >> 1) | (s[1] << 63),
        (s[1] >> 1) | (s[2] << 63),
        (s[2] >> 1) | (s[3] << 63),
        (s[3] >> 1) | (s[4] << 63),
    ]
}

// ---- stub 2: arithmetic contracts (justified by engine L): result is some value below the modulus
#[cfg(kani)]
pub fn mul_havoc(this: &mut U256, _other: &U256, modulo: &U256, _inv: u64) {
    let m = [modulo[0], modulo[1], modulo[2], modulo[3]];
    *this = U256::from(havoc_below(&m));
}
#[cfg(kani)]
pub fn square_havoc(this: &mut U256, modulo: &U256, _inv: u64) {
    let m = [modulo[0], modulo[1], modulo[2], modulo[3]];
    *this = U256::from(havoc_below(&m));
}
#[cfg(kani)]
pub fn invert_havoc(this: &mut U256, modulo: &U256, _r2: &U256) {
    assert!(!this.is_zero(), "invert called on zero");
    let m = [modulo[0], modulo[1], modulo[2], modulo[3]];
    *this = U256::from(havoc_below(&m));
}
#[cfg(kani)]
pub fn sop_havoc<const T: usize>(_a: &[RawFq; T], _b: &[RawFq; T]) -> RawFq {
    fq_from_raw(havoc_below(&Q))
}
#[cfg(kani)]
pub fn divrem_havoc(_x: &U512, modulo: &U256) -> (Option<U256>, U256) {
    let m = [modulo[0], modulo[1], modulo[2], modulo[3]];
    (None, U256::from(havoc_below(&m)))
}
// deterministic, cheap, non-commutative "tag" used to check operand routing of multiplicative
// operator forms: every form must reach U256::mul with (self, other, modulus) in this order.
pub fn tagf(a: &[u64; 4], b: &[u64; 4]) -> [u64; 4] {
    [
        a[0] ^ b[0].rotate_left(1),
        a[1] ^ b[1].rotate_left(3),
        a[2] ^ b[2].rotate_left(5),
        a[3] ^ b[3].rotate_left(7),
    ]
}
pub fn mul_tag(this: &mut U256, other: &U256, modulo: &U256, inv: u64) {
    let a = [this[0], this[1], this[2], this[3]];
    let b = [other[0], other[1], other[2], other[3]];
    let mut t = tagf(&a, &b);
    t[0] ^= modulo[0];
    t[1] ^= inv;
    *this = U256::from(t);
}

// ---- constants of the two Montgomery fields, computed independently (Python big integers) from
// q and r of the standard: R mod p, R^2 mod p, 10*R mod p, -p^-1 mod 2^64, p-1
pub const Q_ONE: [u64; 4] = [0x1A9064D81CAEBA83, 0xDE0D6CB4E5851124, 0x29FC54B00A7138BA, 0x49BFFFFFFD5C590E];
pub const Q_R2: [u64; 4] = [0x27DEA312B417E2D2, 0x88F8105FAE1A5D3F, 0xE479B522D6706E7B, 0x2EA795A656F62FBD];
pub const Q_TEN: [u64; 4] = [0x73E583D1918E332A, 0x24BBF1E48D46EFF9, 0x4BCCA1A092311A38, 0x087FFFFFDB0CDEC6];
pub const Q_INV: u64 = 0x892BC42C2F2EE42B;
pub const R_ONE: [u64; 4] = [0x1A911E63296130DB, 0xB60D6CB4E7157411, 0x29FC54B00A7138BB, 0x49BFFFFFFD5C590E];
pub const R_R2: [u64; 4] = [0x7598CD79CD750C35, 0xE4A08110BB6DAEAB, 0xBFEE4BAE7D78A1F9, 0x8894F5D163695D0E];
pub const R_TEN: [u64; 4] = [0x73EFA96C4350ABFA, 0xF4BBF1E4A32C58EF, 0x4BCCA1A092311A43, 0x087FFFFFDB0CDEC6];
pub const R_INV: u64 = 0x1D02662351974B53;
pub const R_MINUS1: [u64; 4] = [0xE56EE19CD69ECF24, 0x49F2934B18EA8BEE, 0xD603AB4FF58EC744, 0xB640000002A3A6F1];

/// big-endian value of up to 64 bytes, right aligned, as 8 little-endian limbs
pub fn be_value8(buf: &[u8]) -> [u64; 8] {
    let mut v = [0u64; 8];
    let n = buf.len();
    let mut i = 0;
    while i < n && i < 64 {
        v[i / 8] |= (buf[n - 1 - i] as u64) << (8 * (i % 8));
        i += 1;
    }
    v
}
pub fn be_value4(buf: &[u8]) -> [u64; 4] {
    let mut v = [0u64; 4];
    let n = buf.len();
    let mut i = 0;
    while i < n && i < 32 {
        v[i / 8] |= (buf[n - 1 - i] as u64) << (8 * (i % 8));
        i += 1;
    }
    v
}
/// 32 big-endian bytes of 4 limbs
pub fn be_bytes32(l: &[u64; 4]) -> [u8; 32] {
    let mut o = [0u8; 32];
    let mut i = 0;
    while i < 32 {
        o[31 - i] = (l[i / 8] >> (8 * (i % 8))) as u8;
        i += 1;
    }
    o
}
/// a mod p for a 256-bit a (2p > 2^256: at most one subtraction)
pub fn red1(a: &[u64; 4], p: &[u64; 4]) -> [u64; 4] {
    if lt(a, p) {
        *a
    } else {
        sub5(&[a[0], a[1], a[2], a[3], 0], p)
    }
}
/// native-only: (big-endian integer of up to 64 bytes) mod p by Horner over bits with the reference adder
#[cfg(not(kani))]
pub fn ref_mod_be(buf: &[u8], p: &[u64; 4]) -> [u64; 4] {
    let mut r = [0u64; 4];
    for byte in buf {
        for k in (0..8).rev() {
            r = ref_add(&r, &r, p);
            if (byte >> k) & 1 == 1 {
                r = ref_add(&r, &[1, 0, 0, 0], p);
            }
        }
    }
    r
}

// ---- stub 3 (Kani only): the contract model of the Montgomery kernels used by byte-level harnesses.
// encode (x * R^2) and decode (x * 1) are mutually inverse bijections of [0,p) fixing 0 (engine L:
// L-enc, L-dec); encode of a 256-bit value first reduces it mod p; every other product is an
// arbitrary canonical value that is zero exactly when a factor is zero (field, no zero divisors).
// Calls are also logged so that harnesses can check the data flow into the kernels.
#[cfg(kani)]
pub mod ghost {
    pub const CAP: usize = 6;
    pub static mut N: usize = 0; // encode/decode table
    pub static mut T_CAN: [[u64; 4]; CAP] = [[0; 4]; CAP]; // canonical value
    pub static mut T_MONT: [[u64; 4]; CAP] = [[0; 4]; CAP]; // stored (Montgomery) value
    pub static mut T_M0: [u64; CAP] = [0; CAP]; // low limb of the modulus (which field)
    pub static mut MUL_CALLS: usize = 0;
    pub static mut MUL_SELF: [[u64; 4]; CAP] = [[0; 4]; CAP];
    pub static mut MUL_OTHER: [[u64; 4]; CAP] = [[0; 4]; CAP];
    pub static mut MUL_OUT: [[u64; 4]; CAP] = [[0; 4]; CAP];
    pub static mut DIV_CALLS: usize = 0;
    pub static mut DIV_X: [u64; 8] = [0; 8];
    pub static mut DIV_M: [u64; 4] = [0; 4];
    pub static mut DIV_R: [u64; 4] = [0; 4];
    pub static mut SQRT_NONE: bool = false;
    pub static mut NEW_CALLS: usize = 0;
    pub static mut NEW_ERR: bool = false;
    pub static mut INVERT_CALLS: usize = 0;
}
#[cfg(kani)]
pub fn mul_model(this: &mut U256, other: &U256, modulo: &U256, _inv: u64) {
    use ghost::*;
    let m = [modulo[0], modulo[1], modulo[2], modulo[3]];
    let a = [this[0], this[1], this[2], this[3]];
    let b = [other[0], other[1], other[2], other[3]];
    let r2 = if m[0] == Q[0] { Q_R2 } else { R_R2 };
    let out: [u64; 4];
    unsafe {
        if eq4(&b, &r2) {
            let c = red1(&a, &m);
            let mut found = CAP;
            let mut j = 0;
            while j < CAP {
                if j < N && T_M0[j] == m[0] && eq4(&T_CAN[j], &c) && found == CAP {
                    found = j;
                }
                j += 1;
            }
            if found < CAP {
                out = T_MONT[found];
            } else {
                let o = havoc_below(&m);
                kani::assume(is0(&o) == is0(&c));
                let mut j = 0;
                while j < CAP {
                    if j < N && T_M0[j] == m[0] {
                        kani::assume(!eq4(&T_MONT[j], &o));
                    }
                    j += 1;
                }
                if N < CAP {
                    T_CAN[N] = c;
                    T_MONT[N] = o;
                    T_M0[N] = m[0];
                    N += 1;
                }
                out = o;
            }
        } else if eq4(&b, &[1, 0, 0, 0]) && lt(&a, &m) {
            let mut found = CAP;
            let mut j = 0;
            while j < CAP {
                if j < N && T_M0[j] == m[0] && eq4(&T_MONT[j], &a) && found == CAP {
                    found = j;
                }
                j += 1;
            }
            if found < CAP {
                out = T_CAN[found];
            } else {
                let o = havoc_below(&m);
                kani::assume(is0(&o) == is0(&a));
                let mut j = 0;
                while j < CAP {
                    if j < N && T_M0[j] == m[0] {
                        kani::assume(!eq4(&T_CAN[j], &o));
                    }
                    j += 1;
                }
                if N < CAP {
                    T_CAN[N] = o;
                    T_MONT[N] = a;
                    T_M0[N] = m[0];
                    N += 1;
                }
                out = o;
            }
        } else {
            let o = havoc_below(&m);
            if lt(&a, &m) && lt(&b, &m) {
                kani::assume(is0(&o) == (is0(&a) || is0(&b)));
            }
            out = o;
        }
        if MUL_CALLS < CAP {
            MUL_SELF[MUL_CALLS] = a;
            MUL_OTHER[MUL_CALLS] = b;
            MUL_OUT[MUL_CALLS] = out;
        }
        MUL_CALLS += 1;
    }
    *this = U256::from(out);
}
#[cfg(kani)]
pub fn square_model(this: &mut U256, modulo: &U256, _inv: u64) {
    let m = [modulo[0], modulo[1], modulo[2], modulo[3]];
    let a = [this[0], this[1], this[2], this[3]];
    let o = havoc_below(&m);
    if lt(&a, &m) {
        kani::assume(is0(&o) == is0(&a));
    }
    *this = U256::from(o);
}
#[cfg(kani)]
pub fn divrem_model(x: &U512, modulo: &U256) -> (Option<U256>, U256) {
    use ghost::*;
    let m = [modulo[0], modulo[1], modulo[2], modulo[3]];
    assert!(!is0(&m), "divrem by zero");
    let r = havoc_below(&m);
    unsafe {
        DIV_CALLS += 1;
        DIV_X = [x[0], x[1], x[2], x[3], x[4], x[5], x[6], x[7]];
        DIV_M = m;
        DIV_R = r;
    }
    let qq: [u64; 4] = [kani::any(), kani::any(), kani::any(), kani::any()];
    (if kani::any() { Some(U256::from(qq)) } else { None }, U256::from(r))
}
#[cfg(kani)]
pub fn invert_model(this: &mut U256, modulo: &U256, _r2: &U256) {
    assert!(!this.is_zero(), "invert called on zero");
    let m = [modulo[0], modulo[1], modulo[2], modulo[3]];
    let o = havoc_below(&m);
    kani::assume(!is0(&o));
    unsafe {
        ghost::INVERT_CALLS += 1;
    }
    *this = U256::from(o);
}
#[cfg(kani)]
pub fn fq_sqrt_model(x: &RawFq) -> Option<RawFq> {
    if kani::any() {
        let o = havoc_below(&Q);
        kani::assume(is0(&o) == is0(&fq_raw(x)));
        Some(fq_from_raw(o))
    } else {
        kani::assume(!is0(&fq_raw(x)));
        unsafe {
            ghost::SQRT_NONE = true;
        }
        None
    }
}
#[cfg(kani)]
pub fn fq2_sqrt_model(x: &RawFq2) -> Option<RawFq2> {
    if kani::any() {
        let (a, b) = (havoc_below(&Q), havoc_below(&Q));
        let (x0, x1) = fq2_parts(x);
        kani::assume((is0(&a) && is0(&b)) == (is0(&fq_raw(&x0)) && is0(&fq_raw(&x1))));
        Some(RawFq2::new(fq_from_raw(a), fq_from_raw(b)))
    } else {
        unsafe {
            ghost::SQRT_NONE = true;
        }
        None
    }
}
/// AffineG::new contract: Ok carrying exactly the given coordinates, or Err; never panics.
/// (its own behaviour - curve equation, subgroup test - is decided by engine A). y = 0 is
/// excluded on Ok: neither curve has a point of order two (both group orders are odd).
#[cfg(kani)]
pub fn affine_new_model<P: GroupParams>(x: P::Base, y: P::Base) -> Result<AffineG<P>, sm9_core::GroupError> {
    unsafe {
        ghost::NEW_CALLS += 1;
    }
    if kani::any() {
        kani::assume(!y.is_zero());
        match G::<P>::new(x, y, P::Base::one()).to_affine() {
            Some(a) => Ok(a),
            None => Err(sm9_core::GroupError::NotOnCurve),
        }
    } else {
        unsafe {
            ghost::NEW_ERR = true;
        }
        Err(sm9_core::GroupError::NotOnCurve)
    }
}

/// layout-only model: decode (x * 1) is the identity on canonical values; used by harnesses that
/// check pure byte placement (independent of which bijection decode is)
#[cfg(kani)]
pub fn mul_dec_id(this: &mut U256, other: &U256, modulo: &U256, _inv: u64) {
    let m = [modulo[0], modulo[1], modulo[2], modulo[3]];
    let a = [this[0], this[1], this[2], this[3]];
    let b = [other[0], other[1], other[2], other[3]];
    if !(eq4(&b, &[1, 0, 0, 0]) && lt(&a, &m)) {
        *this = U256::from(havoc_below(&m));
    }
}

/// cheap product contract for harnesses that do not need the encode/decode bijection: an arbitrary
/// canonical value, zero exactly when a (canonical) factor is zero
#[cfg(kani)]
pub fn mul_havoc_z(this: &mut U256, other: &U256, modulo: &U256, _inv: u64) {
    let m = [modulo[0], modulo[1], modulo[2], modulo[3]];
    let a = [this[0], this[1], this[2], this[3]];
    let b = [other[0], other[1], other[2], other[3]];
    let o = havoc_below(&m);
    if lt(&a, &m) && lt(&b, &m) {
        kani::assume(is0(&o) == (is0(&a) || is0(&b)));
    }
    *this = U256::from(o);
}
