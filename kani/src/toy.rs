//! k_smul_toy: the REAL generic `impl Mul<Fr> for G<P>` (double-and-add over the bits of the scalar),
//! instantiated with a toy base field F_13 and the curve y^2 = x^3 + 2... so that the whole 256-step loop
//! over a SYMBOLIC 256-bit scalar is decidable: P * k must equal (k mod n) * P for the toy group of
//! prime order n. Scalar-multiplication control flow (bit order, leading-zero skipping, which bits
//! trigger an addition) is shared by every instantiation of the generic code, G1 and G2 included.
use crate::common::*;
use crate::{cover, harnesses};
use core::ops::{Add, Mul, MulAssign, Neg, Sub};
use sm9_core::verif_hooks::FieldElement;

pub const TP: u16 = 13; // toy prime
#[derive(Copy, Clone, Debug, PartialEq, Eq)]
pub struct T13(pub u16);
impl Add for T13 {
    type Output = T13;
    fn add(self, o: T13) -> T13 {
        T13((self.0 + o.0) % TP)
    }
}
impl Sub for T13 {
    type Output = T13;
    fn sub(self, o: T13) -> T13 {
        T13((self.0 + TP - o.0) % TP)
    }
}
impl Mul for T13 {
    type Output = T13;
    fn mul(self, o: T13) -> T13 {
        T13((self.0 * o.0) % TP)
    }
}
impl<'a> MulAssign<&'a T13> for T13 {
    fn mul_assign(&mut self, o: &T13) {
        *self = *self * *o;
    }
}
impl Neg for T13 {
    type Output = T13;
    fn neg(self) -> T13 {
        T13((TP - self.0) % TP)
    }
}
impl Zero for T13 {
    fn zero() -> Self {
        T13(0)
    }
    fn is_zero(&self) -> bool {
        self.0 == 0
    }
}
impl One for T13 {
    fn one() -> Self {
        T13(1)
    }
}
impl FieldElement for T13 {
    fn random<R: rand::Rng>(_: &mut R) -> Self {
        T13(1)
    }
    fn squared(&self) -> Self {
        *self * *self
    }
    fn double(&self) -> Self {
        *self + *self
    }
    fn triple(&self) -> Self {
        *self + *self + *self
    }
    fn inverse(&self) -> Option<Self> {
        if self.0 == 0 {
            return None;
        }
        // x^(p-2)
        let mut r = T13(1);
        let mut i = 0;
        while i < TP - 2 {
            r = r * *self;
            i += 1;
        }
        Some(r)
    }
}
// y^2 = x^3 + 2 over F_13: points (1,4) ... the group E(F_13) for b = 2 has order 19 (prime) [checked
// natively by the harness itself: 19 * G = O and G != O]
pub const TN: u64 = 19;
pub const TGX: u16 = 1;
pub const TGY: u16 = 4;
#[derive(Debug)]
pub struct ToyParams;
impl GroupParams for ToyParams {
    type Base = T13;
    fn name() -> &'static str {
        "Toy"
    }
    fn one() -> G<Self> {
        G::new(T13(TGX), T13(TGY), T13(1))
    }
    fn coeff_b() -> T13 {
        T13(2)
    }
}
/// k mod 19 for a 256-bit k given by limbs (2^64 mod 19 = 5? computed below, not assumed)
fn mod_n(k: &[u64; 4]) -> u64 {
    let w = ((1u128 << 64) % TN as u128) as u64; // 2^64 mod n
    let mut r = 0u64;
    let mut i = 4;
    while i > 0 {
        i -= 1;
        r = (r * w + k[i] % TN) % TN;
    }
    r
}
/// independent reference: repeated affine-free addition through the generic + on z=1 multiples, done on
/// CONCRETE small multiples only (table of j*G for j in 0..n)
fn table() -> [G<ToyParams>; 19] {
    let g = ToyParams::one();
    let mut t = [G::<ToyParams>::zero(); 19];
    let mut acc = G::<ToyParams>::zero();
    let mut j = 0;
    while j < 19 {
        t[j] = acc;
        acc = acc + g;
        j += 1;
    }
    t
}
fn smul_toy() {
    let k = any_below(&R);
    // scalar with canonical value k: under Kani the decode kernel is stubbed to return exactly these limbs
    // (contract L-dec); natively the scalar is built from its canonical bytes
    #[cfg(kani)]
    let s = {
        unsafe {
            TOY_K = k;
        }
        fr_from_raw([1, 0, 0, 0])
    };
    #[cfg(not(kani))]
    let s = RawFr::from_slice(&be_bytes32(&k)).unwrap();
    // representative of the generator: (l^2 x, l^3 y, l) with l symbolic non-zero
    let l = T13(sym::u8() as u16 % TP);
    sym::assume(l.0 != 0);
    let g = ToyParams::one();
    let p: G<ToyParams> = G::new(*g.x() * l * l, *g.y() * l * l * l, l);
    let r = p * s;
    let want = table()[mod_n(&k) as usize];
    assert!(r == want, "P * k is the k-fold sum of P (toy instantiation of the generic scalar multiplication)");
    cover!(k[3] == 0 && k[2] == 0 && k[1] == 1 && k[0] == 0, "k = 2^64");
    cover!(is0(&k), "zero scalar");
}
#[cfg(kani)]
pub static mut TOY_K: [u64; 4] = [0; 4];
#[cfg(kani)]
pub fn mul_decode_toy(this: &mut U256, _other: &U256, _modulo: &U256, _inv: u64) {
    unsafe {
        *this = U256::from(TOY_K);
    }
}
harnesses! { registry;
    #[kani::unwind(258)]
    #[kani::stub(core::arch::x86_64::_addcarry_u64, addcarry_stub)]
    #[kani::stub(core::arch::x86_64::_subborrow_u64, subborrow_stub)]
    #[kani::stub(sm9_core::verif_hooks::U256::mul, mul_decode_toy)]
    fn k_smul_toy() { smul_toy() }
}
