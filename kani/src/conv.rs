//! k_bytes_*, k_conv_*, k_setbit_*, k_cmp_*, k_random_*: byte / decimal / hash / bit conversions
//! (C13), canonicity of every constructor (C07), totality (C18). Byte strings have symbolic
//! content AND symbolic length. Kernels are replaced by the contract model of common.rs (Kani
//! only); natively the same bodies run the real kernels and compare values through an
//! independent bit-serial reduction.
use crate::common::*;
use crate::lin::{FieldK, KFq, KFr};
use crate::{cover, harnesses};

fn bytes_u256_from_slice() {
    let buf: [u8; 40] = sym::bytes();
    let len = sym::usize();
    sym::assume(len <= 40);
    let r = U256::from_slice(&buf[..len]);
    assert!(r.is_ok() == (len == 32), "U256::from_slice accepts exactly 32 bytes");
    if let Ok(v) = r {
        assert!(eq4(&u256_limbs(&v), &be_value4(&buf[..32])), "big-endian limb order");
    }
    cover!(len == 32, "accepted");
    cover!(len == 33, "one too long");
}
fn bytes_u256_to_big_endian() {
    let l = any4();
    let len = sym::usize();
    sym::assume(len <= 40);
    let mut out = [0u8; 40];
    let r = U256::from(l).to_big_endian(&mut out[..len]);
    assert!(r.is_ok() == (len == 32), "to_big_endian: wrong buffer size is an error, not a panic");
    if r.is_ok() {
        let want = be_bytes32(&l);
        let mut i = 0;
        while i < 32 {
            assert!(out[i] == want[i], "big-endian bytes");
            i += 1;
        }
    }
    cover!(len == 31, "short buffer");
}
fn bytes_u512_from_slice() {
    let buf: [u8; 70] = sym::bytes();
    let len = sym::usize();
    sym::assume(len <= 70);
    let r = U512::from_slice(&buf[..len]);
    assert!(r.is_ok() == (len == 64), "U512::from_slice accepts exactly 64 bytes");
    if let Ok(v) = r {
        let w = be_value8(&buf[..64]);
        let g = u512_limbs(&v);
        let mut i = 0;
        while i < 8 {
            assert!(g[i] == w[i], "big-endian limb order");
            i += 1;
        }
    }
    cover!(len == 64, "accepted");
}

// Fq/Fr::from_slice: Some exactly for 1..=64 bytes; value = big-endian integer mod p; canonical
fn conv_from_slice<K: FieldK>() {
    let buf: [u8; 70] = sym::bytes();
    let len = sym::usize();
    sym::assume(len <= 70);
    let r = K::from_slice(&buf[..len]);
    assert!(r.is_some() == (len >= 1 && len <= 64), "from_slice accepts exactly the lengths 1..=64");
    if let Some(f) = r {
        let raw = K::raw(&f);
        assert!(lt(&raw, &K::P), "result canonical");
        #[cfg(kani)]
        unsafe {
            use ghost::*;
            let v = be_value8(&buf[..len]);
            if len <= 32 {
                // no 512-bit division needed: the encode kernel receives the padded value itself
                let c = red1(&[v[0], v[1], v[2], v[3]], &K::P);
                // the result is the encoding of c: either the table has (c -> raw) or c = 0 = raw
                let mut ok = is0(&c) && is0(&raw);
                let mut j = 0;
                while j < CAP {
                    if j < N && eq4(&T_CAN[j], &c) && eq4(&T_MONT[j], &raw) {
                        ok = true;
                    }
                    j += 1;
                }
                assert!(ok, "from_slice(<=32 bytes) = encode(big-endian value mod p)");
                assert!(DIV_CALLS == 0 || eq4(&DIV_M, &K::P));
            } else {
                assert!(DIV_CALLS == 1, "33..=64 bytes: one 512-bit reduction");
                let mut i = 0;
                while i < 8 {
                    assert!(DIV_X[i] == v[i], "reduction input = left-padded big-endian value");
                    i += 1;
                }
                assert!(eq4(&DIV_M, &K::P), "reduced modulo the field modulus");
                let c = DIV_R;
                let mut ok = is0(&c) && is0(&raw);
                let mut j = 0;
                while j < CAP {
                    if j < N && eq4(&T_CAN[j], &c) && eq4(&T_MONT[j], &raw) {
                        ok = true;
                    }
                    j += 1;
                }
                assert!(ok, "from_slice(33..=64 bytes) = encode(remainder)");
            }
        }
        #[cfg(not(kani))]
        {
            let want = ref_mod_be(&buf[..len], &K::P);
            assert!(K::to_slice(f) == be_bytes32(&want), "from_slice value = big-endian integer mod p");
        }
    }
    cover!(len == 1, "one byte");
    cover!(len == 31, "31 bytes");
    cover!(len == 32, "32 bytes");
    cover!(len == 33, "33 bytes");
    cover!(len == 64, "64 bytes");
    cover!(len == 65, "65 bytes rejected");
}
// to_slice is the canonical value big-endian, from_slice(to_slice(x)) == x, to_slice(from_slice(b)) == b for b < p
fn conv_roundtrip<K: FieldK>() {
    let a = any_below(&K::P);
    let x = K::mk(a);
    let b = K::to_slice(x);
    let v = be_value4(&b);
    assert!(lt(&v, &K::P), "to_slice is below the modulus");
    let y = K::from_slice(&b);
    assert!(y.is_some());
    assert!(eq4(&K::raw(&y.unwrap()), &a), "from_slice(to_slice(x)) == x");
    assert!(K::eq(&y.unwrap(), &x));
    // and the other direction, for an arbitrary canonical 32-byte string
    let c = any_below(&K::P);
    let cb = be_bytes32(&c);
    let z = K::from_slice(&cb).unwrap();
    assert!(K::to_slice(z) == cb, "to_slice(from_slice(b)) == b for b < p");
    assert!(is0(&c) == K::is_zero(&z), "is_zero exactly for the value 0");
}
fn conv_interpret<K: FieldK>() {
    let buf: [u8; 64] = sym::bytes();
    let f = K::interpret(&buf);
    let raw = K::raw(&f);
    assert!(lt(&raw, &K::P), "interpret result canonical");
    #[cfg(kani)]
    unsafe {
        use ghost::*;
        let v = be_value8(&buf);
        assert!(DIV_CALLS == 1);
        let mut i = 0;
        while i < 8 {
            assert!(DIV_X[i] == v[i], "reduction input = big-endian value");
            i += 1;
        }
        assert!(eq4(&DIV_M, &K::P));
    }
    #[cfg(not(kani))]
    {
        let want = ref_mod_be(&buf, &K::P);
        assert!(K::to_slice(f) == be_bytes32(&want), "interpret value = big-endian integer mod p");
    }
}
fn conv_to_big_endian_fq() {
    let a = any_below(&Q);
    let x = pub_fq(fq_from_raw(a));
    let len = sym::usize();
    sym::assume(len <= 40);
    let mut out = [0u8; 40];
    let r = x.to_big_endian(&mut out[..len]);
    assert!(r.is_ok() == (len == 32), "Fq::to_big_endian: wrong buffer size is an error, not a panic");
    if r.is_ok() {
        let s = x.to_slice();
        let mut i = 0;
        while i < 32 {
            assert!(out[i] == s[i], "to_big_endian agrees with to_slice");
            i += 1;
        }
        assert!(x.is_even() == (s[31] & 1 == 0), "is_even is the parity of the canonical value");
    }
}

// Fr::from_hash(h) = (int(h) mod (r-1)) + 1, None beyond 64 bytes
fn conv_from_hash() {
    let buf: [u8; 70] = sym::bytes();
    let len = sym::usize();
    sym::assume(len <= 70);
    let r = sm9_core::Fr::from_hash(&buf[..len]);
    assert!(r.is_some() == (len <= 64), "from_hash: None exactly beyond 64 bytes");
    if let Some(f) = r {
        let raw = fr_raw(&pub_fr_inner(&f));
        assert!(lt(&raw, &R), "canonical");
        #[cfg(kani)]
        unsafe {
            use ghost::*;
            let v = be_value8(&buf[..len]);
            assert!(DIV_CALLS == 1);
            let mut i = 0;
            while i < 8 {
                assert!(DIV_X[i] == v[i], "reduction input = left-padded big-endian hash value");
                i += 1;
            }
            // the modulus handed to the reduction is decode(-one): find it in the table
            let minus_one = ref_neg(&R_ONE, &R);
            let mut ok = false;
            let mut j = 0;
            while j < CAP {
                if j < N && eq4(&T_MONT[j], &minus_one) && eq4(&T_CAN[j], &DIV_M) {
                    ok = true;
                }
                j += 1;
            }
            assert!(ok, "reduced modulo the canonical value of -1, i.e. r-1");
            // result = encode(rem) + one
            let c = DIV_R;
            let mut enc_ok = false;
            let mut j = 0;
            while j < CAP {
                if j < N && eq4(&T_CAN[j], &c) && eq4(&ref_add(&T_MONT[j], &R_ONE, &R), &raw) {
                    enc_ok = true;
                }
                j += 1;
            }
            if is0(&c) && eq4(&raw, &R_ONE) {
                enc_ok = true;
            }
            assert!(enc_ok, "from_hash = encode(remainder) + 1");
        }
        #[cfg(not(kani))]
        {
            let m = ref_mod_be(&buf[..len], &R_MINUS1);
            let want = ref_add(&m, &[1, 0, 0, 0], &R);
            assert!(f.to_slice() == be_bytes32(&want), "from_hash = (int(h) mod (r-1)) + 1");
            assert!(!is0(&want));
        }
    }
    cover!(len == 0, "empty hash");
    cover!(len == 40, "40-byte hash");
    cover!(len == 64, "64 bytes");
    cover!(len == 65, "rejected");
}

// from_str: an error as soon as any non-digit occurs; otherwise Horner in the field: res*10 + d
fn conv_from_str<K: FieldK, const NB: usize>() {
    let b0: [u8; NB] = sym::bytes();
    let mut buf = [0u8; 3];
    let mut i = 0;
    while i < NB {
        buf[i] = b0[i];
        i += 1;
    }
    let len = sym::usize();
    sym::assume(len <= NB);
    let s = core::str::from_utf8(&buf[..len]);
    sym::assume(s.is_ok());
    let s = s.unwrap();
    let mut all_digits = true;
    let mut i = 0;
    while i < len {
        if !(buf[i] >= b'0' && buf[i] <= b'9') {
            all_digits = false;
        }
        i += 1;
    }
    let r = K::from_dec(s);
    assert!(r.is_some() == all_digits, "from_str: Some exactly for strings of ASCII decimal digits");
    if let Some(f) = r {
        let raw = K::raw(&f);
        assert!(lt(&raw, &K::P));
        #[cfg(kani)]
        unsafe {
            use ghost::*;
            // one kernel call per character: (running value) * (10 in Montgomery form); then + digit*one
            assert!(MUL_CALLS == len, "one multiplication by ten per character");
            let mut acc = [0u64; 4];
            let mut i = 0;
            while i < 3 {
                if i < len {
                    assert!(eq4(&MUL_SELF[i], &acc), "Horner: running value enters the multiplication");
                    assert!(eq4(&MUL_OTHER[i], &K::TEN), "multiplied by ten");
                    let d = (buf[i] - b'0') as usize;
                    let mut dv = [0u64; 4];
                    let mut k = 0;
                    while k < 9 {
                        if k < d {
                            dv = ref_add(&dv, &K::ONE, &K::P);
                        }
                        k += 1;
                    }
                    acc = ref_add(&MUL_OUT[i], &dv, &K::P);
                }
                i += 1;
            }
            assert!(eq4(&raw, &acc), "result = last product + digit");
        }
        #[cfg(not(kani))]
        {
            let mut v: u64 = 0;
            for b in &buf[..len] {
                v = v * 10 + (b - b'0') as u64;
            }
            assert!(eq4(&be_value4(&K::to_slice(f)), &[v, 0, 0, 0]), "decimal value");
        }
    }
    cover!(len == NB && all_digits, "all digits");
    cover!(len == NB && !all_digits, "non-digit");
    cover!(len == 0, "empty string");
}

fn setbit_u256() {
    let l = any4();
    let n = sym::usize();
    sym::assume(n <= 300);
    let to = sym::bool();
    let mut v = U256::from(l);
    let r = v.set_bit(n, to);
    let g = u256_limbs(&v);
    assert!(r == (n < 256), "set_bit returns false beyond bit 255");
    let mut i = 0;
    while i < 4 {
        let want = if n < 256 && n / 64 == i {
            if to {
                l[i] | (1u64 << (n % 64))
            } else {
                l[i] & !(1u64 << (n % 64))
            }
        } else {
            l[i]
        };
        assert!(g[i] == want, "exactly bit n changes");
        i += 1;
    }
    assert!(v.get_bit(n) == if n < 256 { Some(to) } else { None });
    cover!(n == 255, "top bit");
    cover!(n == 256, "out of range");
}
// Fr::set_bit from an arbitrary canonical state leaves a canonical state (C07) ...
fn setbit_fr_canonical() {
    let a = any_below(&R);
    let mut x = pub_fr(fr_from_raw(a));
    let n = sym::usize();
    sym::assume(n <= 300);
    let to = sym::bool();
    x.set_bit(n, to);
    assert!(lt(&fr_raw(&pub_fr_inner(&x)), &R), "Fr::set_bit leaves the element fully reduced");
    cover!(n == 255, "top bit");
}
// ... and sets bit i of the canonical value, reducing mod r (C13)
fn setbit_fr_value() {
    let a = any_below(&R);
    let mut x = pub_fr(fr_from_raw(a));
    let n = sym::usize();
    sym::assume(n <= 300);
    let to = sym::bool();
    let before = be_value4(&x.to_slice());
    x.set_bit(n, to);
    let after = be_value4(&x.to_slice());
    let mut want = before;
    if n < 256 {
        if to {
            want[n / 64] |= 1u64 << (n % 64);
        } else {
            want[n / 64] &= !(1u64 << (n % 64));
        }
    }
    let want = red1(&want, &R);
    assert!(eq4(&after, &want), "Fr::set_bit sets bit i of the canonical value (mod r)");
    cover!(n == 0 && to, "bit 0");
    cover!(n == 255 && to, "bit 255 (forces a reduction)");
    cover!(n == 256, "out of range index");
}

fn cmp_eq<K: FieldK>() {
    let (a, b) = (any_below(&K::P), any_below(&K::P));
    let (x, y) = (K::mk(a), K::mk(b));
    assert!(K::eq(&x, &y) == eq4(&a, &b), "== is limb equality of canonical representations");
    let (ua, ub) = (U256::from(a), U256::from(b));
    assert!((ua < ub) == lt(&a, &b) && (ua == ub) == eq4(&a, &b) && (ua >= ub) == !lt(&a, &b), "U256 ordering is numeric");
    cover!(eq4(&a, &b), "equal");
    cover!(a[3] == b[3] && a[2] == b[2] && a[1] == b[1] && a[0] < b[0], "differs in the lowest limb only");
}
fn cmp_eq_fq2() {
    let (a0, a1, b0, b1) = (any_below(&Q), any_below(&Q), any_below(&Q), any_below(&Q));
    let x = pub_fq2(RawFq2::new(fq_from_raw(a0), fq_from_raw(a1)));
    let y = pub_fq2(RawFq2::new(fq_from_raw(b0), fq_from_raw(b1)));
    assert!((x == y) == (eq4(&a0, &b0) && eq4(&a1, &b1)), "Fq2 == is component-wise limb equality");
    assert!(x.is_zero() == (is0(&a0) && is0(&a1)));
    assert!(eq4(&fq_raw(&pub_fq_inner(&x.real())), &a0) && eq4(&fq_raw(&pub_fq_inner(&x.imaginary())), &a1), "real/imaginary parts");
}

// random: with an arbitrary RNG stream the result is canonical
pub struct SymRng;
impl rand::RngCore for SymRng {
    fn next_u32(&mut self) -> u32 {
        sym::u64() as u32
    }
    fn next_u64(&mut self) -> u64 {
        sym::u64()
    }
    fn fill_bytes(&mut self, dest: &mut [u8]) {
        for d in dest.iter_mut() {
            *d = sym::u8();
        }
    }
    fn try_fill_bytes(&mut self, dest: &mut [u8]) -> Result<(), rand::Error> {
        self.fill_bytes(dest);
        Ok(())
    }
}
fn random_canonical_fr() {
    let mut rng = SymRng;
    let x = sm9_core::Fr::random(&mut rng);
    assert!(lt(&fr_raw(&pub_fr_inner(&x)), &R), "Fr::random is fully reduced for every RNG output");
}
fn random_canonical_fq() {
    let mut rng = SymRng;
    let x = <RawFq as FieldElement>::random(&mut rng);
    assert!(lt(&fq_raw(&x), &Q), "Fq::random is fully reduced for every RNG output");
}

// Fq2 byte conversions: 64 bytes, imaginary part first; coordinates >= q rejected, never a panic
fn conv_fq2_from_slice_len() {
    let buf: [u8; 70] = sym::bytes();
    let len = sym::usize();
    sym::assume(len <= 70 && len != 64);
    assert!(sm9_core::Fq2::from_slice(&buf[..len]).is_none(), "Fq2::from_slice rejects every length but 64");
    cover!(len == 63, "63");
    cover!(len == 65, "65");
}
// Fq2::to_slice layout: imaginary part first, each part the canonical value big-endian; is_even is the
// parity of the canonical real part (layout-only model: decode = identity on canonical values)
fn fq2_bytes() {
    let (a0, a1) = (any_below(&Q), any_below(&Q));
    let f = pub_fq2(RawFq2::new(fq_from_raw(a0), fq_from_raw(a1)));
    let s = f.to_slice();
    #[cfg(kani)]
    let (c0, c1) = (a0, a1);
    #[cfg(not(kani))]
    let (c0, c1) = (be_value4(&f.real().to_slice()), be_value4(&f.imaginary().to_slice()));
    let (b0, b1) = (be_bytes32(&c0), be_bytes32(&c1));
    let mut i = 0;
    while i < 32 {
        assert!(s[i] == b1[i] && s[32 + i] == b0[i], "Fq2::to_slice: imaginary part first, big-endian");
        i += 1;
    }
    assert!(f.is_even() == (c0[0] & 1 == 0), "Fq2::is_even is the parity of the canonical real part");
}
fn conv_fq2_from_slice() {
    let buf: [u8; 64] = sym::bytes();
    let len = 64;
    let r = sm9_core::Fq2::from_slice(&buf);
    let strict = lt(&be_value4(&buf[..32]), &Q) && lt(&be_value4(&buf[32..64]), &Q);
    assert!(r.is_some() == strict, "Fq2::from_slice: Some exactly for 64 bytes with both coordinates below q");
    let _ = len;
    cover!(strict, "accepted");
    cover!(!strict, "coordinate >= q");
}

// U512::new(c1, c0, m) = c1*m + c0 (used by the dev-profile self-check of divrem): no overflow / debug assertion
// for any c1 < 2^256, c0 < m, and the value equals an independent schoolbook product by the constant modulus
fn u512_new_q() {
    let c1 = any4();
    let c0 = any_below(&Q);
    let got = u512_limbs(&U512::new(&U256::from(c1), &U256::from(c0), &U256::from(Q)));
    // reference: acc = c0 + sum_i sum_j c1[i]*Q[j]*W^(i+j), column by column with a 192-bit accumulator
    let mut want = [0u64; 8];
    let mut acc_lo: u128 = 0; // low 128 bits of the running column sum
    let mut acc_hi: u128 = 0; // overflow beyond 128 bits
    let mut k = 0;
    while k < 8 {
        if k < 4 {
            let (s, o) = acc_lo.overflowing_add(c0[k] as u128);
            acc_lo = s;
            acc_hi += o as u128;
        }
        let mut i = 0;
        while i < 4 {
            if k >= i && k - i < 4 {
                let p = (c1[i] as u128) * (Q[k - i] as u128);
                let (s, o) = acc_lo.overflowing_add(p);
                acc_lo = s;
                acc_hi += o as u128;
            }
            i += 1;
        }
        want[k] = acc_lo as u64;
        acc_lo = (acc_lo >> 64) | (acc_hi << 64);
        acc_hi = 0;
        k += 1;
    }
    let mut i = 0;
    while i < 8 {
        assert!(got[i] == want[i], "U512::new = c1 * m + c0");
        i += 1;
    }
    cover!(c1[3] == u64::MAX && c1[0] == u64::MAX, "large c1");
}

// the same helper with only the code's own checks as the property (overflow checks, debug_assert!(!carry)):
// no dev-profile panic for any c1 < 2^256, c0 < m
fn u512_new_nopanic() {
    let c1 = any4();
    let c0 = any_below(&Q);
    let got = u512_limbs(&U512::new(&U256::from(c1), &U256::from(c0), &U256::from(Q)));
    // the low limb is fully determined by the low limbs (cheap sanity that the value is used)
    assert!(got[0] == c1[0].wrapping_mul(Q[0]).wrapping_add(c0[0]), "low limb of c1*m + c0");
}

macro_rules! std_stubs { () => {} }

harnesses! { registry;
    #[kani::unwind(34)]
    fn k_bytes_u256_from_slice() { bytes_u256_from_slice() }
    #[kani::unwind(42)]
    #[kani::stub(core::arch::x86_64::_addcarry_u64, addcarry_stub)]
    #[kani::stub(core::arch::x86_64::_subborrow_u64, subborrow_stub)]
    fn k_bytes_u256_to_big_endian() { bytes_u256_to_big_endian() }
    #[kani::unwind(66)]
    fn k_bytes_u512_from_slice() { bytes_u512_from_slice() }

    #[kani::unwind(72)]
    #[kani::stub(core::arch::x86_64::_addcarry_u64, addcarry_stub)]
    #[kani::stub(core::arch::x86_64::_subborrow_u64, subborrow_stub)]
    #[kani::stub(sm9_core::verif_hooks::U256::mul, mul_model)]
    #[kani::stub(sm9_core::verif_hooks::U512::divrem, divrem_model)]
    fn k_conv_from_slice_fq() { conv_from_slice::<KFq>() }
    #[kani::unwind(72)]
    #[kani::stub(core::arch::x86_64::_addcarry_u64, addcarry_stub)]
    #[kani::stub(core::arch::x86_64::_subborrow_u64, subborrow_stub)]
    #[kani::stub(sm9_core::verif_hooks::U256::mul, mul_model)]
    #[kani::stub(sm9_core::verif_hooks::U512::divrem, divrem_model)]
    fn k_conv_from_slice_fr() { conv_from_slice::<KFr>() }

    #[kani::unwind(34)]
    #[kani::stub(core::arch::x86_64::_addcarry_u64, addcarry_stub)]
    #[kani::stub(core::arch::x86_64::_subborrow_u64, subborrow_stub)]
    #[kani::stub(sm9_core::verif_hooks::U256::mul, mul_model)]
    #[kani::stub(sm9_core::verif_hooks::U512::divrem, divrem_model)]
    fn k_conv_roundtrip_fq() { conv_roundtrip::<KFq>() }
    #[kani::unwind(34)]
    #[kani::stub(core::arch::x86_64::_addcarry_u64, addcarry_stub)]
    #[kani::stub(core::arch::x86_64::_subborrow_u64, subborrow_stub)]
    #[kani::stub(sm9_core::verif_hooks::U256::mul, mul_model)]
    #[kani::stub(sm9_core::verif_hooks::U512::divrem, divrem_model)]
    fn k_conv_roundtrip_fr() { conv_roundtrip::<KFr>() }

    #[kani::unwind(66)]
    #[kani::stub(core::arch::x86_64::_addcarry_u64, addcarry_stub)]
    #[kani::stub(core::arch::x86_64::_subborrow_u64, subborrow_stub)]
    #[kani::stub(sm9_core::verif_hooks::U256::mul, mul_model)]
    #[kani::stub(sm9_core::verif_hooks::U512::divrem, divrem_model)]
    fn k_conv_interpret_fq() { conv_interpret::<KFq>() }
    #[kani::unwind(66)]
    #[kani::stub(core::arch::x86_64::_addcarry_u64, addcarry_stub)]
    #[kani::stub(core::arch::x86_64::_subborrow_u64, subborrow_stub)]
    #[kani::stub(sm9_core::verif_hooks::U256::mul, mul_model)]
    #[kani::stub(sm9_core::verif_hooks::U512::divrem, divrem_model)]
    fn k_conv_interpret_fr() { conv_interpret::<KFr>() }

    #[kani::unwind(42)]
    #[kani::stub(core::arch::x86_64::_addcarry_u64, addcarry_stub)]
    #[kani::stub(core::arch::x86_64::_subborrow_u64, subborrow_stub)]
    #[kani::stub(sm9_core::verif_hooks::U256::mul, mul_model)]
    fn k_conv_to_big_endian_fq() { conv_to_big_endian_fq() }

    #[kani::unwind(72)]
    #[kani::stub(core::arch::x86_64::_addcarry_u64, addcarry_stub)]
    #[kani::stub(core::arch::x86_64::_subborrow_u64, subborrow_stub)]
    #[kani::stub(sm9_core::verif_hooks::U256::mul, mul_model)]
    #[kani::stub(sm9_core::verif_hooks::U512::divrem, divrem_model)]
    fn k_conv_from_hash() { conv_from_hash() }

    #[kani::unwind(13)]
    #[kani::stub(core::arch::x86_64::_addcarry_u64, addcarry_stub)]
    #[kani::stub(core::arch::x86_64::_subborrow_u64, subborrow_stub)]
    #[kani::stub(sm9_core::verif_hooks::U256::mul, mul_model)]
    fn k_conv_from_str_fq() { conv_from_str::<KFq, 2>() }
    #[kani::unwind(13)]
    #[kani::stub(core::arch::x86_64::_addcarry_u64, addcarry_stub)]
    #[kani::stub(core::arch::x86_64::_subborrow_u64, subborrow_stub)]
    #[kani::stub(sm9_core::verif_hooks::U256::mul, mul_model)]
    fn k_conv_from_str_fr() { conv_from_str::<KFr, 2>() }
    #[kani::unwind(13)]
    #[kani::stub(core::arch::x86_64::_addcarry_u64, addcarry_stub)]
    #[kani::stub(core::arch::x86_64::_subborrow_u64, subborrow_stub)]
    #[kani::stub(sm9_core::verif_hooks::U256::mul, mul_model)]
    fn k_conv_from_str3_fr() { conv_from_str::<KFr, 3>() }

    #[kani::unwind(6)]
    fn k_setbit_u256() { setbit_u256() }
    #[kani::unwind(66)]
    #[kani::stub(core::arch::x86_64::_addcarry_u64, addcarry_stub)]
    #[kani::stub(core::arch::x86_64::_subborrow_u64, subborrow_stub)]
    fn k_u512_new_q() { u512_new_q() }
    #[kani::unwind(66)]
    #[kani::stub(core::arch::x86_64::_addcarry_u64, addcarry_stub)]
    #[kani::stub(core::arch::x86_64::_subborrow_u64, subborrow_stub)]
    fn k_u512_new_nopanic() { u512_new_nopanic() }
    #[kani::unwind(34)]
    #[kani::stub(core::arch::x86_64::_addcarry_u64, addcarry_stub)]
    #[kani::stub(core::arch::x86_64::_subborrow_u64, subborrow_stub)]
    #[kani::stub(sm9_core::verif_hooks::U256::mul, mul_model)]
    fn k_setbit_fr_canonical() { setbit_fr_canonical() }
    #[kani::unwind(34)]
    #[kani::stub(core::arch::x86_64::_addcarry_u64, addcarry_stub)]
    #[kani::stub(core::arch::x86_64::_subborrow_u64, subborrow_stub)]
    #[kani::stub(sm9_core::verif_hooks::U256::mul, mul_model)]
    fn k_setbit_fr_value() { setbit_fr_value() }

    #[kani::unwind(34)]
    fn k_cmp_eq_fq() { cmp_eq::<KFq>() }
    #[kani::unwind(34)]
    fn k_cmp_eq_fr() { cmp_eq::<KFr>() }
    #[kani::unwind(34)]
    fn k_cmp_eq_fq2() { cmp_eq_fq2() }

    #[kani::unwind(10)]
    #[kani::stub(core::arch::x86_64::_addcarry_u64, addcarry_stub)]
    #[kani::stub(core::arch::x86_64::_subborrow_u64, subborrow_stub)]
    #[kani::stub(sm9_core::verif_hooks::U512::divrem, divrem_model)]
    fn k_random_canonical_fr() { random_canonical_fr() }
    #[kani::unwind(10)]
    #[kani::stub(core::arch::x86_64::_addcarry_u64, addcarry_stub)]
    #[kani::stub(core::arch::x86_64::_subborrow_u64, subborrow_stub)]
    #[kani::stub(sm9_core::verif_hooks::U512::divrem, divrem_model)]
    fn k_random_canonical_fq() { random_canonical_fq() }

    #[kani::unwind(66)]
    #[kani::stub(core::arch::x86_64::_addcarry_u64, addcarry_stub)]
    #[kani::stub(core::arch::x86_64::_subborrow_u64, subborrow_stub)]
    #[kani::stub(sm9_core::verif_hooks::U256::mul, mul_havoc_z)]
    fn k_conv_fq2_from_slice() { conv_fq2_from_slice() }
    #[kani::unwind(34)]
    #[kani::stub(core::arch::x86_64::_addcarry_u64, addcarry_stub)]
    #[kani::stub(core::arch::x86_64::_subborrow_u64, subborrow_stub)]
    #[kani::stub(sm9_core::verif_hooks::U256::mul, mul_dec_id)]
    fn k_fq2_bytes() { fq2_bytes() }
    #[kani::unwind(34)]
    #[kani::stub(core::arch::x86_64::_addcarry_u64, addcarry_stub)]
    #[kani::stub(core::arch::x86_64::_subborrow_u64, subborrow_stub)]
    #[kani::stub(sm9_core::verif_hooks::U256::mul, mul_model)]
    fn k_conv_fq2_from_slice_len() { conv_fq2_from_slice_len() }
}
