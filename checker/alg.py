"""Engine A: build the overlay (real source + symbolic Fq), run path-enumeration tasks, parse leaves."""
import os, re, json, shutil, tempfile, subprocess, time
from common import *

ADIR = os.path.join(VERIF, 'alg', 'overlay')


EDIR = os.path.join(VERIF, 'alg', 'overlay_e')


def overlay_exe(variant='flat'):
    """build (or reuse, keyed by tree hash + overlay sources) the overlay binary"""
    if variant == 'E':
        return overlay_exe_e()
    key = '%s-%s-%s' % (variant, tree_hash(), dir_hash(ADIR))
    exe = os.path.join(workdir('alg'), 'alg-' + key)
    if os.path.exists(exe):
        return exe, 'cached'
    with Lock('alg-build-' + variant):
        if os.path.exists(exe):
            return exe, 'cached'
        scratch = tempfile.mkdtemp(prefix='sm9verif.', dir=os.environ.get('TMPDIR', '/var/tmp'))
        try:
            shutil.copytree(os.path.join(REPO, 'src'), os.path.join(scratch, 'src'))
            for f in ('Cargo.toml', 'Cargo.lock', 'README.md'):
                if os.path.exists(os.path.join(REPO, f)):
                    shutil.copy(os.path.join(REPO, f), scratch)
            # --- the two anchor lines of src/fields.rs
            p = os.path.join(scratch, 'src', 'fields.rs')
            s = open(p).read()
            a1, a2 = 'mod fp;\n', 'pub use self::fp::{Fq, Fr};\n'
            if s.count(a1) != 1 or s.count(a2) != 1:
                return None, 'overlay anchors not found in src/fields.rs'
            s = s.replace(a1, 'mod fp;\npub mod symfq;\n').replace(a2, 'pub use self::fp::Fr;\npub use self::symfq::Fq;\n')
            open(p, 'w').write(s)
            p = os.path.join(scratch, 'src', 'lib.rs')
            s = open(p).read()
            s = re.sub(r'#\[cfg\(john_yu_sm9_core_verif\)\]\s*\npub mod verif_hooks;\n', 'pub mod verif_alg;\n', s)
            if 'pub mod verif_alg;' not in s:
                return None, 'hook anchor not found in src/lib.rs'
            open(p, 'w').write(s)
            vh = os.path.join(scratch, 'src', 'verif_hooks.rs')
            if os.path.exists(vh):
                os.remove(vh)
            shutil.copy(os.path.join(ADIR, 'symfq.rs'), os.path.join(scratch, 'src', 'fields', 'symfq.rs'))
            shutil.copy(os.path.join(ADIR, 'verif_alg.rs'), os.path.join(scratch, 'src', 'verif_alg.rs'))
            os.makedirs(os.path.join(scratch, 'src', 'bin'), exist_ok=True)
            shutil.copy(os.path.join(ADIR, 'alg_main.rs'), os.path.join(scratch, 'src', 'bin', 'alg.rs'))
            # benches need criterion etc.; drop them from the scratch manifest
            p = os.path.join(scratch, 'Cargo.toml')
            s = open(p).read()
            s = re.sub(r'\[\[bench\]\][^\[]*', '', s)
            open(p, 'w').write(s)
            tdir = os.path.join(WORK, 'alg-target-' + variant)
            log = os.path.join(workdir('logs'), 'alg-build-%s.log' % variant)
            rc, secs = run(['cargo', 'build', '--release', '--offline', '--bin', 'alg', '--target-dir', tdir], log,
                           timeout=1800, cwd=scratch)
            built = os.path.join(tdir, 'release', 'alg')
            if rc != 0 or not os.path.exists(built):
                return None, 'overlay build failed, see ' + log
            shutil.copy(built, exe)
            return exe, 'built in %.0fs' % secs
        finally:
            shutil.rmtree(scratch, ignore_errors=True)


def run_task(exe, family, only='', timeout=1200):
    """-> list of leaf dicts"""
    out = os.path.join(workdir('alg-out'), '%s-%s-%d.jsonl' % (family, re.sub(r'\W', '_', only), os.getpid()))
    with open(out, 'w') as f:
        p = subprocess.run([exe, family, only], stdout=f, stderr=subprocess.PIPE, timeout=timeout, text=True)
    leaves = []
    for ln in open(out):
        ln = ln.strip()
        if ln.startswith('{'):
            leaves.append(json.loads(ln))
    os.remove(out)
    return leaves


def overlay_exe_e():
    """variant E: the real source with Fq12 redirected to the exponent-tracking stand-in (Fq stays the real type)"""
    key = 'E-%s-%s' % (tree_hash(), dir_hash(EDIR))
    exe = os.path.join(workdir('alg'), 'alg-' + key)
    if os.path.exists(exe):
        return exe, 'cached'
    with Lock('alg-build-E'):
        if os.path.exists(exe):
            return exe, 'cached'
        scratch = tempfile.mkdtemp(prefix='sm9verif.', dir=os.environ.get('TMPDIR', '/var/tmp'))
        try:
            shutil.copytree(os.path.join(REPO, 'src'), os.path.join(scratch, 'src'))
            for f in ('Cargo.toml', 'Cargo.lock', 'README.md'):
                if os.path.exists(os.path.join(REPO, f)):
                    shutil.copy(os.path.join(REPO, f), scratch)
            p = os.path.join(scratch, 'src', 'fields.rs')
            s = open(p).read()
            a1, a2 = 'mod fq12;\n', 'pub use self::fq12::Fq12;\n'
            if s.count(a1) != 1 or s.count(a2) != 1:
                return None, 'overlay-E anchors not found in src/fields.rs'
            s = s.replace(a1, 'mod fq12;\npub mod symfq12;\n').replace(a2, 'pub use self::symfq12::Fq12;\n')
            open(p, 'w').write(s)
            p = os.path.join(scratch, 'src', 'lib.rs')
            s = open(p).read()
            s = re.sub(r'#\[cfg\(john_yu_sm9_core_verif\)\]\s*\npub mod verif_hooks;\n', 'pub mod verif_alg_e;\n', s)
            if 'pub mod verif_alg_e;' not in s:
                return None, 'hook anchor not found in src/lib.rs'
            open(p, 'w').write(s)
            vh = os.path.join(scratch, 'src', 'verif_hooks.rs')
            if os.path.exists(vh):
                os.remove(vh)
            shutil.copy(os.path.join(EDIR, 'symfq12.rs'), os.path.join(scratch, 'src', 'fields', 'symfq12.rs'))
            shutil.copy(os.path.join(EDIR, 'verif_alg_e.rs'), os.path.join(scratch, 'src', 'verif_alg_e.rs'))
            os.makedirs(os.path.join(scratch, 'src', 'bin'), exist_ok=True)
            shutil.copy(os.path.join(EDIR, 'alg_main_e.rs'), os.path.join(scratch, 'src', 'bin', 'alg.rs'))
            p = os.path.join(scratch, 'Cargo.toml')
            s = open(p).read()
            s = re.sub(r'\[\[bench\]\][^\[]*', '', s)
            open(p, 'w').write(s)
            tdir = os.path.join(WORK, 'alg-target-E')
            log = os.path.join(workdir('logs'), 'alg-build-E.log')
            rc, secs = run(['cargo', 'build', '--release', '--offline', '--bin', 'alg', '--target-dir', tdir], log, timeout=1800, cwd=scratch)
            built = os.path.join(tdir, 'release', 'alg')
            if rc != 0 or not os.path.exists(built):
                return None, 'overlay-E build failed, see ' + log
            shutil.copy(built, exe)
            return exe, 'built in %.0fs' % secs
        finally:
            shutil.rmtree(scratch, ignore_errors=True)
