"""Shared plumbing for /verif/check: tree hash, work dirs, process running, obligations, evidence."""
import hashlib, json, os, re, subprocess, sys, time, fcntl, shutil, resource

REPO = os.environ.get('VERIF_REPO', '/repo')
VERIF = os.path.dirname(os.path.dirname(os.path.abspath(__file__)))
WORK = os.path.join(VERIF, '.work')
GUARD = 'john_yu_sm9_core_verif'
SEED = int(os.environ.get('VERIF_SEED', '0') or 0)
NCPU = int(os.environ.get('VERIF_JOBS', str(os.cpu_count() or 8)))


def tree_hash():
    """content hash of everything the encodings are generated from"""
    h = hashlib.sha256()
    files = []
    for root, dirs, fs in os.walk(os.path.join(REPO, 'src')):
        dirs.sort()
        for f in sorted(fs):
            files.append(os.path.join(root, f))
    for f in ('Cargo.toml', 'Cargo.lock'):
        p = os.path.join(REPO, f)
        if os.path.exists(p):
            files.append(p)
    for p in files:
        h.update(os.path.relpath(p, REPO).encode())
        h.update(b'\0')
        h.update(open(p, 'rb').read())
        h.update(b'\0')
    return h.hexdigest()[:16]


def dir_hash(path, exts=None):
    h = hashlib.sha256()
    for root, dirs, fs in os.walk(path):
        dirs[:] = sorted(d for d in dirs if d not in ('target', '__pycache__', '.work'))
        for f in sorted(fs):
            if exts and not f.endswith(exts):
                continue
            p = os.path.join(root, f)
            h.update(os.path.relpath(p, path).encode())
            h.update(open(p, 'rb').read())
    return h.hexdigest()[:16]


def workdir(*parts):
    p = os.path.join(WORK, *parts)
    os.makedirs(p, exist_ok=True)
    return p


class Lock:
    """inter-process lock so that concurrently running checks share one artefact build"""

    def __init__(self, name):
        self.path = os.path.join(workdir('locks'), name + '.lock')

    def __enter__(self):
        self.f = open(self.path, 'w')
        fcntl.flock(self.f, fcntl.LOCK_EX)
        return self

    def __exit__(self, *a):
        fcntl.flock(self.f, fcntl.LOCK_UN)
        self.f.close()


def base_env():
    e = dict(os.environ)
    e['CARGO_NET_OFFLINE'] = 'true'
    e['RUSTFLAGS'] = '--cfg ' + GUARD
    e.pop('RUSTUP_TOOLCHAIN', None)
    return e


def run(cmd, log, timeout=None, env=None, cwd=None, mem_gb=None):
    """run a command with output to a log file; returns (exit_code|'timeout', seconds)"""
    t = time.time()

    def lim():
        os.setsid()
        if mem_gb:
            b = int(mem_gb * (1 << 30))
            resource.setrlimit(resource.RLIMIT_AS, (b, b))

    with open(log, 'w') as lf:
        p = subprocess.Popen(cmd, stdout=lf, stderr=subprocess.STDOUT, env=env or base_env(), cwd=cwd,
                             preexec_fn=lim, shell=isinstance(cmd, str))
        try:
            rc = p.wait(timeout=timeout)
        except subprocess.TimeoutExpired:
            try:
                os.killpg(p.pid, 9)
            except Exception:
                pass
            p.wait()
            rc = 'timeout'
    return rc, time.time() - t


# ---------------------------------------------------------------- obligations / results
class Obl:
    """one proof obligation and its verdict"""

    def __init__(self, name, engine, statement, functions=None, bounds=None, assumptions=None):
        self.name = name
        self.engine = engine
        self.statement = statement
        self.functions = functions or []
        self.bounds = bounds or ''
        self.assumptions = assumptions or []
        self.status = 'pending'  # proved | violated | inconclusive | known
        self.seconds = 0.0
        self.detail = ''
        self.witness = None  # replay path
        self.queries = 0
        self.vacuity = None
        self.canary = None
        self.cached = False

    def to_json(self):
        return {k: getattr(self, k) for k in
                ('name', 'engine', 'statement', 'functions', 'bounds', 'assumptions', 'status', 'seconds',
                 'detail', 'witness', 'queries', 'vacuity', 'canary', 'cached')}


_cache = None
QUICK_SKIPPED = []  # obligations the quick tier leaves to the thorough tier (solver time above the quick budget)


def cache_path():
    return os.path.join(workdir('cache'), 'verdicts.json')


def cache_get(key):
    if os.environ.get('VERIF_NO_CACHE'):
        return None
    try:
        with Lock('cache'):
            d = json.load(open(cache_path()))
        return d.get(key)
    except Exception:
        return None


def cache_put(key, val):
    try:
        with Lock('cache'):
            try:
                d = json.load(open(cache_path()))
            except Exception:
                d = {}
            d[key] = val
            tmp = cache_path() + '.tmp'
            json.dump(d, open(tmp, 'w'))
            os.replace(tmp, cache_path())
    except Exception:
        pass


def known_findings():
    p = os.path.join(VERIF, 'known_findings.json')
    try:
        return json.load(open(p))
    except Exception:
        return {'open': [], 'fixed': []}


def match_known(pid, site, cls):
    for k in known_findings().get('open', []):
        if k.get('property') == pid and k.get('site') == site and k.get('class') == cls:
            return k
    return None


def write_replay(pid, oblname, data):
    d = os.path.join(VERIF, 'replays')
    os.makedirs(d, exist_ok=True)
    safe = re.sub(r'[^A-Za-z0-9_.-]', '_', oblname)
    path = os.path.join(d, '%s-%s.json' % (pid, safe))
    json.dump(data, open(path, 'w'), indent=1)
    return path


def write_evidence(pid, tier, level, obls, wall, trusted_base, not_covered, checker_cmd, explanation='',
                   extra=None):
    os.makedirs(os.path.join(VERIF, 'evidence'), exist_ok=True)
    proved = [o for o in obls if o.status in ('proved', 'known')]
    nontriv = [o for o in obls if o.status == 'proved' and o.vacuity and not any(w in str(o.vacuity) for w in ('not reachable', 'unknown', 'covers (', 'unsat'))]
    viol = [o for o in obls if o.status == 'violated']
    samples = []
    for o in obls[:6]:
        samples.append({'obligation': o.name, 'engine': o.engine, 'statement': o.statement,
                        'functions': o.functions[:8], 'bounds': o.bounds, 'status': o.status,
                        'seconds': round(o.seconds, 2)})
    cov = {
        'obligations': len(obls),
        'discharged': len(proved),
        'checker_cmd': checker_cmd,
        'trusted_base': trusted_base,
        'evaluations': max(1, sum(max(1, o.queries) for o in obls)),
        'distinct_nontrivial': len(nontriv),
        'rule': 'one evaluation = one solver query (a Kani/CBMC harness run, or one SMT query of engines L/A); '
                'an obligation counts as non-trivial when it was discharged (unsat / VERIFICATION SUCCESSFUL with '
                'unwinding assertions) and its vacuity witness (cover / hypotheses-sat / canary) was reachable',
        'samples': samples,
        'explanation': explanation,
        'solver_seconds': round(sum(o.seconds for o in obls), 1),
        'cached_obligations': sum(1 for o in obls if o.cached),
        'inconclusive': [o.name for o in obls if o.status == 'inconclusive'],
        'known_findings_matched': [o.name for o in obls if o.status == 'known'],
        'not_covered': not_covered,
        'functions_encoded': sorted(set(f for o in obls for f in o.functions))[:200],
        'obligation_list': [o.to_json() for o in obls],
        'tree_hash': tree_hash(),
    }
    if extra:
        cov.update(extra)
    ev = {
        'property_id': pid, 'tier': tier, 'seed': SEED, 'level': level, 'coverage': cov,
        'assumptions': sorted(set(a for o in obls for a in o.assumptions)) + trusted_base,
        'wall_s': round(wall, 1), 'violations': len(viol),
    }
    path = os.path.join(VERIF, 'evidence', pid + '.json')
    tmp = path + '.tmp'
    json.dump(ev, open(tmp, 'w'), indent=1)
    os.replace(tmp, path)
    return path
