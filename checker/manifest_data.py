HOOK_COMMITS = ["a00b145"]
FIX_COMMITS = ["4cfe379", "9a3809a", "4be56b0", "7cf11ff", "908d75c", "71fe224"]
PENDING = "check not built yet in this round (see DESIGN.md section 10 build order); listed here until its check is registered"
CHECKS = {
 "C06": dict(engine="K+L", technique="bounded model checking of the compiled crate (Kani/CBMC, bit-precise, symbolic limbs) + SMT on release LLVM IR",
             text="Every obligation is a solver verdict over all stored limb vectors below the modulus (no sampling): linear operators and all operator forms bit-precisely in the dev profile by Kani/CBMC; on the release IR the same linear operators, Montgomery mul / square / encode / decode (out*R = a*b + K*p - d*p*R on every path, out < p) as linear-integer lemmas with uninterpreted 64x64 products, the field constants against the standard, and the pow loop (Fq, Fr) as a cut-point skeleton for every 256-bit exponent. Bounded by unwind 6 (limb loops) only.",
             design_ref="DESIGN.md 5 (C06), 2, 3",
             note="Trusted: Kani/CBMC, z3, Intel ADC/SBB semantics stub, interpretation of the uninterpreted 64x64 product as integer multiplication; Montgomery decode algebra (x -> x*R^-1 is an additive bijection)."),
}
def _k(text, ref, note=None, engine="K"):
    return dict(engine=engine, technique="bounded model checking of the compiled crate (Kani/CBMC, bit-precise, symbolic bytes/limbs/lengths) with contract stubs; counterexamples replayed natively",
                text=text, design_ref=ref, note=note or "Trusted: Kani/CBMC; Intel ADC/SBB stub; contract model of the Montgomery kernels (encode/decode mutually inverse bijections of [0,p), products canonical) justified by engine L; sqrt / AffineG::new contract models where listed in the evidence.")
CHECKS.update({
 "C07": _k("One-step inductive invariant 'stored limbs < p': every constructor (from_slice of every length, interpret, from_hash, from_str, random with arbitrary RNG stream, set_bit for every index) establishes it and every linear operator preserves it, from an ARBITRARY canonical state; == is limb equality. Solver-decided for all inputs within the stated size bounds.", "DESIGN.md 5 (C07)"),
 "C08": _k("Every G1/G2 decoder over ALL byte strings of the format length (arbitrary prefix/coordinates) and every other length 0..=140: no panic, Ok implies exact length/prefix/coordinates < q, no spurious rejection, re-encoding gives back the input; dev-profile semantics so a reachable debug assertion is a failure.", "DESIGN.md 5 (C08)"),
 "C10": _k("Byte layouts of all six encoders over arbitrary canonical coordinates (prefix, big-endian, imaginary first, parity bit) and decode->encode round trip on all well-formed strings.", "DESIGN.md 5 (C10)"),
 "C11": _k("Gt::to_slice layout (highest coefficient first, every limb below q) and == as coefficient equality, for all twelve coefficients symbolic.", "DESIGN.md 5 (C11)"),
 "C13": _k("Byte/decimal/hash conversions over byte strings of EVERY length 0..=70 with symbolic content: accepted lengths, left padding, data flow into the reduction kernels, from_hash range, set_bit on the canonical value, to_big_endian error path.", "DESIGN.md 5 (C13)"),
 "C18": _k("Kani models the dev profile (overflow checks, debug assertions, bounds checks): every harness of the linear, conversion and decoder families is decided with those checks as proof obligations over all inputs, malformed ones included.", "DESIGN.md 5 (C18)"),
})
def _a(text, ref, engine="A", extra=""):
    return dict(engine=engine, technique="symbolic execution of the real tower/group source over a symbolic base field (all paths enumerated), polynomial identities mod q decided by z3" + extra,
                text=text, design_ref=ref,
                note="Trusted: z3; the overlay's model of Fq (= the contracts engine L proves for the limb kernels); parametricity of the generic group code in its base ring; F_q is an integral domain; Python reference written from the standard.")
CHECKS.update({
 "C05": dict(engine="L+A", technique="cut-point verification of the scalar-multiplication loop on the release LLVM IR (callees abstracted to integer coefficients, invariants found Houdini-style, z3 LIA) + algebraic group-law identities (z3)",
             text="For EVERY 256-bit scalar k < r: the release IR of the generic double-and-add (both instantiations) returns coefficient k when double/add are abstracted to 2c / c1+c2 - 3079 LIA obligations over 514 cut-point states, with a wrong-abstraction canary; the abstraction is justified by the C04 obligations (every branch of add/double is the group law on every representative, non-canonical identities included), and the scalar the loop sees is the canonical value (L-dec-r).",
             design_ref="DESIGN.md 3.3b, 5 (C05)", note="Trusted: z3; the IR shape (loop with out-of-line double/add), else inconclusive; group-law obligations of C04; r*G = O for the generators by the Python affine reference."),
 "C14": _a("All paths of the real Fq2::sqrt over symbolic inputs: soundness on every Some leaf; completeness on squares x = c^2, on all real x (both quadratic characters, both roots the norm's square root may return) and None on purely imaginary x, with leaf feasibility decided by quadratic-character reasoning. Fq::sqrt is assumed by contract.", "DESIGN.md 5 (C14)"),
 "C03": _a("The three pairing entry points are executed symbolically end to end on symbolic representatives (z = 1, symbolic z, z = 0 with arbitrary x, y): the result expression may depend on the raw coordinates only through the to_affine outputs (non-interference by dependency analysis of the DAG), identity arguments give the constant one, a prepared value gives the identical expression on every use; candidates are confirmed natively.", "DESIGN.md 5 (C03)", "A", "; representation independence decided as a dependency property of the symbolic result"),
 "C04": _a("Every leaf (all 4-way representation dispatch x equal / opposite / independent / j=0-automorphism-related / identity operands, incl. non-canonical identities) of the real generic add/sub/+=/double/neg equals the affine chord-and-tangent law as a polynomial identity over an abstract commutative ring with symbolic curve coefficient b - unbounded in the inputs; covers G1 and G2 by parametricity.", "DESIGN.md 5 (C04)"),
 "C15": _a("== / to_affine / is_zero / normalize leaves against the cross-multiplication specification for all representatives (z = 1, symbolic z, z = 0 with arbitrary x, y).", "DESIGN.md 5 (C15)"),
 "C12": _a("All Fq2 operations of the real fq2.rs equal arithmetic in F_q[u]/(u^2+2) as polynomial identities (all operator forms, squaring = multiplication, inverse, constants); byte layout / equality / decoding by Kani.", "DESIGN.md 5 (C12)", "A+K", "; Kani for bytes"),
 "C17": _a("Fq4 and Fq12 multiplication, sparse multiplication, squaring, inversion, scaling, Frobenius maps (constants recomputed from q) on ALL elements equal F_q[w]/(w^12+2) as polynomial identities in up to 24 symbolic coordinates.", "DESIGN.md 5 (C17)"),
 "C09": _a("AffineG::new leaves: Ok exactly when the decided polynomial is y^2 - x^3 - b (b = 5, 5u, and symbolic b for the generic code) and, for G2, the z-coordinate of (r-1)P + P (node-identical to the one computed with the verified group operations) is decided zero; the scalar is r-1; every decoder funnels through it (Kani).", "DESIGN.md 5 (C09)", "A+K", "; Kani for the decoder funnel"),
 "C16": _a("Inductive-step composition: from arbitrary representatives every group operation returns a representative of the correct element and every observer depends only on the element; re-runs the C04/C15 obligations on the input classes histories produce (non-canonical identities, un-normalised values).", "DESIGN.md 5 (C16)"),
})
CHECKS["C10"]["engine"] = "K+A"
CHECKS["C09"]["engine"] = "A+L+K"
CHECKS["C07"]["engine"] = "K+L"
CHECKS["C13"]["engine"] = "K+L"
CHECKS["C18"]["engine"] = "K+L"
CHECKS["C17"]["engine"] = "A+L"
CHECKS["C12"]["engine"] = "L+A+K"
CHECKS["C07"]["technique"] += " + SMT on release LLVM IR (range of every kernel result, divrem loop step)"
CHECKS["C13"]["technique"] += " + SMT on release LLVM IR (encode/decode, divrem loop step as cut point)"
CHECKS["C18"]["technique"] += " + SMT on release LLVM IR for the other build profile"
CHECKS["C17"]["technique"] += "; exponent-tracking overlay for the final exponentiations; SMT on release IR for sum_of_products::<4>"
CHECKS["C12"]["technique"] = "SMT on release LLVM IR (lazy-reduction multiplier) + " + CHECKS["C12"]["technique"]
CHECKS["C11"]["technique"] = CHECKS["C11"]["technique"] + " + symbolic execution of the tower source (z3) + cut-point skeleton of Gt::pow on the release IR"
CHECKS["C10"]["technique"] = CHECKS["C10"]["technique"] + " + symbolic execution of to_affine/normalize (z3)"
CHECKS["C11"]["engine"] = "K+A"
CHECKS["C11"]["engine"] = "K+A+L"
NOT_APPLICABLE = {
 "C01": "Bilinearity/non-degeneracy are theorems about Miller functions of degree ~2^65 in the inputs, not a bounded computation: no loop bound or input bound exists under which the real code still computes the SM9 pairing, and one symbolic Montgomery multiplication already exceeds CBMC (20 min, no verdict); the decidable mechanisms are checked under C03/C17.",
 "C02": "Byte-exact end-to-end value of a 65-iteration Miller loop plus a ~3000-bit exponentiation (~10^5 Montgomery multiplications, bit-precisely) cannot be encoded within reach of CBMC/z3; tower, Frobenius constants, final exponentiations and line functions are decided under C17.",
}
for p in []:
    NOT_APPLICABLE[p] = PENDING
