HOOK_COMMITS = ["a00b145"]
FIX_COMMITS = ["4be56b0", "7cf11ff", "908d75c", "71fe224"]
PENDING = "check not built yet in this round (see DESIGN.md section 10 build order); listed here until its check is registered"
CHECKS = {
 "C06": dict(engine="K+L", technique="bounded model checking of the compiled crate (Kani/CBMC, bit-precise, symbolic limbs) + SMT on release LLVM IR",
             text="Every obligation is a solver verdict over all stored limb vectors below the modulus (no sampling): linear operators and operator forms bit-precisely in the dev profile by Kani/CBMC; Montgomery kernels as integer lemmas on the release IR. Bounded by unwind 6 (limb loops) only.",
             design_ref="DESIGN.md 5 (C06), 2, 3",
             note="Trusted: Kani/CBMC, z3, Intel ADC/SBB semantics stub, interpretation of the uninterpreted 64x64 product as integer multiplication; Montgomery decode algebra (x -> x*R^-1 is an additive bijection)."),
}
def _k(text, ref, note=None, engine="K"):
    return dict(engine=engine, technique="bounded model checking of the compiled crate (Kani/CBMC, bit-precise, symbolic bytes/limbs/lengths) with contract stubs; counterexamples replayed natively",
                text=text, design_ref=ref, note=note or "Trusted: Kani/CBMC; Intel ADC/SBB stub; contract model of the Montgomery kernels (encode/decode mutually inverse bijections of [0,p), products canonical) justified by engine L; sqrt / AffineG::new contract models where listed in the evidence.")
CHECKS.update({
 "C07": _k("One-step inductive invariant 'stored limbs < p': every constructor (from_slice of every length, interpret, from_hash, from_str, random with arbitrary RNG stream, set_bit for every index) establishes it and every linear operator preserves it, from an ARBITRARY canonical state; == is limb equality. Solver-decided for all inputs within the stated size bounds.", "DESIGN.md 5 (C07)"),
 "C08": _k("Every G1/G2 decoder over ALL byte strings of the format length (arbitrary prefix/coordinates) and every other length 0..=140: no panic, Ok implies exact length/prefix/coordinates < q, no spurious rejection, re-encoding gives back the input; dev-profile semantics so a reachable debug assertion is a failure.", "DESIGN.md 5 (C08)"),
 "C10": _k("Byte layouts of all six encoders over arbitrary canonical coordinates (prefix, big-endian, imaginary first, parity bit) and decode->encode round trip on all well-formed strings.", "DESIGN.md 5 (C10)"),
 "C11": _k("Gt::to_slice layout (highest coefficient first, every limb below q) and == as coefficient equality, for all twelve coefficients symbolic.", "DESIGN.md 5 (C11)"),
 "C13": _k("Byte/decimal/hash conversions over byte strings of EVERY length 0..=70 with symbolic content: accepted lengths, left padding, data flow into the reduction kernels, from_hash range, set_bit on the canonical value, to_big_endian error path.", "DESIGN.md 5 (C13)"),
 "C18": _k("Kani models the dev profile (overflow checks, debug assertions, bounds checks): every harness of the linear, conversion and decoder families is decided with those checks as proof obligations over all inputs, malformed ones included.", "DESIGN.md 5 (C18)"),
})
NOT_APPLICABLE = {
 "C01": "Bilinearity/non-degeneracy are theorems about Miller functions of degree ~2^65 in the inputs, not a bounded computation: no loop bound or input bound exists under which the real code still computes the SM9 pairing, and one symbolic Montgomery multiplication already exceeds CBMC (20 min, no verdict); the decidable mechanisms are checked under C03/C17.",
 "C02": "Byte-exact end-to-end value of a 65-iteration Miller loop plus a ~3000-bit exponentiation (~10^5 Montgomery multiplications, bit-precisely) cannot be encoded within reach of CBMC/z3; tower, Frobenius constants, final exponentiations and line functions are decided under C17.",
}
for p in ["C03","C04","C05","C09","C12","C14","C15","C16","C17"]:
    NOT_APPLICABLE[p] = PENDING
