HOOK_COMMITS = ["a00b145"]
PENDING = "check not built yet in this round (see DESIGN.md section 10 build order); listed here until its check is registered"
CHECKS = {
 "C06": dict(engine="K+L", technique="bounded model checking of the compiled crate (Kani/CBMC, bit-precise, symbolic limbs) + SMT on release LLVM IR",
             text="Every obligation is a solver verdict over all stored limb vectors below the modulus (no sampling): linear operators and operator forms bit-precisely in the dev profile by Kani/CBMC; Montgomery kernels as integer lemmas on the release IR. Bounded by unwind 6 (limb loops) only.",
             design_ref="DESIGN.md 5 (C06), 2, 3",
             note="Trusted: Kani/CBMC, z3, Intel ADC/SBB semantics stub, interpretation of the uninterpreted 64x64 product as integer multiplication; Montgomery decode algebra (x -> x*R^-1 is an additive bijection)."),
}
NOT_APPLICABLE = {
 "C01": "Bilinearity/non-degeneracy are theorems about Miller functions of degree ~2^65 in the inputs, not a bounded computation: no loop bound or input bound exists under which the real code still computes the SM9 pairing, and one symbolic Montgomery multiplication already exceeds CBMC (20 min, no verdict); the decidable mechanisms are checked under C03/C17.",
 "C02": "Byte-exact end-to-end value of a 65-iteration Miller loop plus a ~3000-bit exponentiation (~10^5 Montgomery multiplications, bit-precisely) cannot be encoded within reach of CBMC/z3; tower, Frobenius constants, final exponentiations and line functions are decided under C17.",
}
for p in ["C03","C04","C05","C07","C08","C09","C10","C11","C12","C13","C14","C15","C16","C17","C18"]:
    NOT_APPLICABLE[p] = PENDING
