"""Engine A obligations: every leaf of the real tower / group / pairing code (enumerated by the overlay
driver over symbolic base-field inputs) against specifications written from the SM9 standard.
An identity is sent to z3 as `some coefficient of (impl - spec) is non-zero mod q` over unconstrained
integers: unsat = the identity holds in every commutative ring in which q = 0, hence for ALL field inputs."""
import time, json, os
from poly import *
from common import Obl

TIMEOUT = 60000


def V(n):
    return Poly.var(n)


def t2(n):
    return from_fq2([V(n + '0'), V(n + '1')])


def t4(n):
    return from_fq2([V(n + '00'), V(n + '01')]) + from_fq2([V(n + '10'), V(n + '11')]) * V_


def t12(n):
    return t4f(n + '0') + t4f(n + '1') * Wg + t4f(n + '2') * Wg * Wg


V_ = T.of(1, 3)


def t4f(n):
    return from_fq2([V(n + '00'), V(n + '01')]) + from_fq2([V(n + '10'), V(n + '11')]) * V_


class Leaf:
    def __init__(self, d):
        self.d = d
        self.task = d['task']
        self.dag = Dag(d['dag'])
        self.pc = d.get('pc', [])
        self.panic = d.get('panic')
        self.out = d.get('out')

    def outs(self):
        return [self.dag.p(i) for i in self.out]

    def decisions(self):
        """[(kind, poly_a - poly_b, outcome)]"""
        r = []
        for kind, a, b, o in self.pc:
            if kind == 'eq':
                r.append((kind, self.dag.p(a) - self.dag.p(b), o))
            else:
                r.append((kind, self.dag.p(a), o))
        return r


def solve_subst(decs):
    """substitution {var: poly} from true equalities that are linear with unit coefficient in one variable"""
    sub = {}
    for kind, p, o in decs:
        if kind != 'eq' or not o:
            continue
        for v, pv in sub.items():
            p = p.subst(v, pv)
        if p.is_zero():
            continue
        done = False
        for m, c in sorted(p.t.items(), key=lambda x: len(x[0])):
            if len(m) == 1 and m[0][1] == 1 and not m[0][0].startswith(('inv#', 'sqrt#')):
                v = m[0][0]
                rest = Poly({mm: cc for mm, cc in p.t.items() if mm != m})
                if v in rest.vars():
                    continue
                sol = rest * (-pow(c, -1, Q))
                for k in list(sub):
                    sub[k] = sub[k].subst(v, sol)
                sub[v] = sol
                done = True
                break
        if not done:
            sub.setdefault('#unsolved', []).append(p) if False else None
    return sub


def apply_sub(p, sub):
    for v, pv in sub.items():
        if v in p.vars():
            p = p.subst(v, pv)
    return p


def reduce_facts(p, facts, sub=None):
    """eliminate inverse / sqrt witnesses: returns list of polynomials that must all vanish.
    inv t with t*N = 1: multiply by N^deg and replace t^k N^k by 1.  sqrt s with s^2 = A: reduce s^2 -> A and
    require both the s-free part and the coefficient of s to vanish (identity must hold for either root)."""
    todo = [p]
    for kind, name, arg, _ in reversed(facts):
        if sub:
            arg = apply_sub(arg, sub)
        nxt = []
        for pp in todo:
            if name not in pp.vars():
                nxt.append(pp)
                continue
            parts = {}
            for m, c in pp.t.items():
                e = 0
                rest = []
                for v, k in m:
                    if v == name:
                        e = k
                    else:
                        rest.append((v, k))
                parts.setdefault(e, Poly())
                parts[e] = parts[e] + Poly({tuple(rest): c})
            if kind == 'inv':
                d = max(parts)
                acc = Poly()
                pw = {0: Poly.const(1)}
                for k in range(1, d + 1):
                    pw[k] = pw[k - 1] * arg
                for e, pe in parts.items():
                    acc = acc + pe * pw[d - e]
                nxt.append(acc)
            else:
                even, odd = Poly(), Poly()
                pw = {0: Poly.const(1)}
                for e, pe in parts.items():
                    h = e // 2
                    for k in range(1, h + 1):
                        if k not in pw:
                            pw[k] = pw[k - 1] * arg
                    if e % 2 == 0:
                        even = even + pe * pw[h]
                    else:
                        odd = odd + pe * pw[h]
                nxt.append(even)
                nxt.append(odd)
        todo = nxt
    return todo


class Checker:
    def __init__(self, pid, seed=0):
        self.pid = pid
        self.obls = []
        self.seed = seed

    def identity(self, name, statement, leaf, diffs, functions, extra_note='', raw=None):
        """diffs: list of Poly that must vanish identically (after facts/substitution)."""
        o = Obl(name, 'A', statement, functions, 'all field elements (symbolic coordinates, no bound); path: %d decisions' % len(leaf.pc),
                ['base field modelled as Z/q with the contracts proved by engine L (mul, squared, sum_of_products, div2)'])
        t0 = time.time()
        decs = leaf.decisions()
        sub = solve_subst(decs)
        red = []
        for d in diffs:
            d = apply_sub(d, sub)
            red += reduce_facts(d, leaf.dag.facts, sub)
        nz = [p for p in red if not p.is_zero()]
        if raw and not leaf.dag.facts and not sub:
            # z3 decides on the UN-normalised expression DAG of the implementation against the spec polynomial
            import z3 as _z3
            zvars = {}

            def zv(n):
                if n not in zvars:
                    zvars[n] = _z3.Int(n.replace('#', '_'))
                return zvars[n]
            cache = {}
            sv = _z3.Solver()
            sv.set('timeout', TIMEOUT)
            dis = []
            for nid, sp in raw:
                dis.append((leaf.dag.z3expr(nid, zv, cache) - sp.to_z3(zv)) % Q != 0)
            sv.add(_z3.Or(*dis))
            rr = sv.check()
            r = str(rr)
            mdl = None
            if rr == _z3.sat:
                m = sv.model()
                mdl = {n: (m.eval(v, model_completion=True).as_long() % Q) for n, v in zvars.items()}
            extra_note += ' [z3 on the raw expression DAG: %s]' % r
            if r != 'unsat' and not nz:
                r2, _, _ = z3_identity(red, TIMEOUT)
        else:
            r, mdl, secs = z3_identity(red, TIMEOUT)
        o.queries = 1
        o.seconds = time.time() - t0
        o.vacuity = 'leaf reached by concrete path enumeration'
        if r == 'unsat':
            o.status = 'proved'
            o.detail = 'z3: unsat (%d residual polynomials, %d identically zero after normalisation mod q)%s' % (len(red), len(red) - len(nz), extra_note)
        else:
            env = mdl if (r == 'sat' and mdl) else find_nonroot(nz, self.seed)
            if not nz:
                o.status = 'proved'
                o.detail = 'z3: %s; polynomial normal form mod q is identically zero (own decision procedure)' % r
            else:
                o.status = 'violated-unreplayed'
                o.cex = env
                o.detail = 'identity refuted (z3: %s): residual polynomial of degree %d, e.g. %r' % (r, nz[0].degree(), nz[0])
        self.obls.append(o)
        return o

    def fail(self, name, statement, detail, functions=None, status='violated-unreplayed', cex=None):
        o = Obl(name, 'A', statement, functions or [], '', [])
        o.status = status
        o.detail = detail
        o.cex = cex
        o.queries = 1
        self.obls.append(o)
        return o

    def ok(self, name, statement, detail, functions=None):
        o = Obl(name, 'A', statement, functions or [], '', [])
        o.status = 'proved'
        o.detail = detail
        o.queries = 1
        o.vacuity = 'structural check on the enumerated leaves'
        self.obls.append(o)
        return o


def tower_diffs(outs, spec, n):
    """outs: list of n polys (coordinates); spec: tower element"""
    want = coords(spec, n)
    d = [a - b for a, b in zip(outs, want)]
    idx = set({1: [0], 2: IDX2, 4: IDX4, 12: IDX12}[n])
    d += [spec.c[i] for i in range(12) if i not in idx]  # spec must lie in the subfield
    return d


# ------------------------------------------------------------------------------------------ tower families
def tower_specs():
    x2, y2 = t2('x'), t2('y')
    x4, y4 = t4f('x'), t4f('y')
    x12, y12 = t12('x'), t12('y')
    s = tw(V('s'))
    S = {}
    S['fq2'] = {
        'fq2_mul': (2, [x2 * y2]),
        'fq2_mul_forms': (2, [x2 * y2] * 4),
        'fq2_sq': (2, [x2 * x2]),
        'fq2_scale': (2, [x2 * s]),
        'fq2_mulnr': (2, [x2 * U]),
        'fq2_conj': (2, [x2.conj(6)]),
        'fq2_add': (2, [x2 + y2]),
        'fq2_sub': (2, [x2 - y2]),
        'fq2_neg': (2, [-x2]),
        'fq2_double': (2, [x2 + x2]),
        'fq2_triple': (2, [x2 + x2 + x2]),
        'fq2_i_one_zero': (2, [U, tw(1), tw(0)]),
    }
    s2 = t2('s')
    S['fq4'] = {
        'fq4_mul': (4, [x4 * y4]),
        'fq4_mul1': (4, [x4 * (from_fq2([V('y10'), V('y11')]) * V_)]),
        'fq4_sq': (4, [x4 * x4]),
        'fq4_scale': (4, [x4 * s2]),
        'fq4_scale_fq': (4, [x4 * s]),
        'fq4_mulnr': (4, [x4 * V_]),
        'fq4_conj': (4, [x4.conj(3)]),
        'fq4_add': (4, [x4 + y4]),
        'fq4_sub': (4, [x4 - y4]),
        'fq4_neg': (4, [-x4]),
        'fq4_double': (4, [x4 + x4]),
        'fq4_triple': (4, [x4 + x4 + x4]),
        'fq4_one_zero': (4, [tw(1), tw(0)]),
    }
    s4 = t4f('s')
    ysp = t4f('y0') + (from_fq2([V('y210'), V('y211')]) * V_) * Wg * Wg
    S['fq12'] = {
        'fq12_mul': (12, [x12 * y12]),
        'fq12_mul015': (12, [x12 * ysp]),
        'fq12_sq': (12, [x12 * x12]),
        'fq12_scale': (12, [x12 * s4]),
        'fq12_mulnr': (12, [x12 * Wg]),
        'fq12_add': (12, [x12 + y12]),
        'fq12_sub': (12, [x12 - y12]),
        'fq12_neg': (12, [-x12]),
        'fq12_one_zero': (12, [tw(1), tw(0)]),
        'fq12_frob_1': (12, [frobenius(x12, 1)]),
        'fq12_frob_2': (12, [frobenius(x12, 2)]),
        'fq12_frob_3': (12, [frobenius(x12, 3)]),
        'fq12_frob_6': (12, [frobenius(x12, 6)]),
        'fq12_pow_0': (12, [tw(1)]),
        'fq12_pow_1': (12, [x12]),
        'fq12_pow_2': (12, [x12 * x12]),
        'fq12_pow_3': (12, [x12 * x12 * x12]),
    }
    return S


# Fq4::frobenius_map(k): the code applies, per F_q12 coefficient c_i (i = k % 10), the map
# c -> c^(q^j) * w^(i*(q^j-1))  with j = k // 10, so that Fq12::frobenius_map(j) is assembled from them.
def fq4_frob_spec(k):
    j, i = k // 10, k % 10
    x4 = t4f('x')
    el = x4 * (Wg if i >= 1 else tw(1)) * (Wg if i >= 2 else tw(1))
    fr_ = frobenius(el, j)
    # the result must be c' * w^i with c' in F_q4: divide by w^i = shift exponents down by i
    c = [P0] * 12
    for e in range(12):
        if not fr_.c[e].is_zero():
            if e - i < 0:
                return None
            c[e - i] = fr_.c[e]
    return T(c)


def check_tower(ck, leaves_by_task, family, names=None):
    S = tower_specs()[family]
    fn = {'fq2': 'src/fields/fq2.rs', 'fq4': 'src/fields/fq4.rs', 'fq12': 'src/fields/fq12.rs'}[family]
    for task, (n, specs) in S.items():
        if names and task not in names:
            continue
        lv = leaves_by_task.get(task, [])
        if not lv:
            ck.fail('A-' + task, 'leaves enumerated', 'no leaf produced for task ' + task, status='inconclusive')
            continue
        for li, lf in enumerate(lv):
            nm = 'A-%s%s' % (task, ('#%d' % li) if len(lv) > 1 else '')
            if lf.panic:
                ck.fail(nm, task + ': no panic leaf', 'panic on a reachable path: ' + lf.panic, [fn], cex=None)
                continue
            outs = lf.outs()
            d = []
            raw = []
            for k, sp in enumerate(specs):
                d += tower_diffs(outs[k * n:(k + 1) * n], sp, n)
                raw += list(zip(lf.out[k * n:(k + 1) * n], coords(sp, n)))
            ck.identity(nm, '%s equals the operation in F_q[w]/(w^12+2) (u=w^6, v=w^3) on all elements' % task, lf, d, [fn + ':' + task], raw=raw)
    if family == 'fq4':
        for k in (10, 11, 12, 21, 22, 30, 31, 32):
            task = 'fq4_frob_%d' % k
            if names and task not in names:
                continue
            for li, lf in enumerate(leaves_by_task.get(task, [])):
                if lf.panic:
                    ck.fail('A-' + task, 'no panic', lf.panic)
                    continue
                sp = fq4_frob_spec(k)
                ck.identity('A-' + task, 'Fq4::frobenius_map(%d) = (c*w^%d)^(q^%d) / w^%d, constants recomputed from q' % (k, k % 10, k // 10, k % 10), lf,
                            tower_diffs(lf.outs(), sp, 4), ['src/fields/fq4.rs:frobenius_map'], raw=list(zip(lf.out, coords(sp, 4))))


def check_inverse(ck, leaves, n, task, fnname):
    """x.inverse(): Some(i) with x*i = 1 on the path norm != 0; None exactly on the path where the decided
    quantity is the field norm of x down to F_q (zero only for x = 0)"""
    mk = {2: t2, 4: t4f, 12: t12}[n]
    X = mk('x')
    for li, lf in enumerate(leaves):
        nm = 'A-%s#%d' % (task, li)
        if lf.panic:
            ck.fail(nm, 'no panic leaf', lf.panic, [fnname])
            continue
        outs = lf.outs()
        flag = outs[0]
        if flag == 1:
            I = {2: from_fq2, 4: from_fq4, 12: from_fq12}[n](outs[1:1 + n])
            d = (X * I - 1)
            ck.identity(nm, '%s: x * inverse(x) = 1 for every non-zero x' % task, lf, list(d.c), [fnname])
        else:
            # None leaf: the last true decision must be "N == 0" with N the norm of x to F_q (up to sign)
            decs = [d for d in lf.decisions() if d[0] == 'eq' and d[2]]
            N = X
            if n == 12:
                # norm F_q12 -> F_q4: product of the three conjugates under w -> zeta w ; equivalently x * adj(x)
                pass
            ok = False
            if decs:
                got = decs[-1][1]
                want = norm_to_fq(X, n)
                if want is not None and (got - want).is_zero() or (want is not None and (got + want).is_zero()):
                    ok = True
            if ok:
                ck.ok(nm, '%s: None exactly when the norm to F_q vanishes (i.e. x = 0)' % task, 'decided quantity equals the field norm polynomial', [fnname])
            else:
                ck.fail(nm, '%s: None only for x = 0' % task, 'None leaf whose deciding quantity is not the field norm of x', [fnname], status='inconclusive')


def norm_to_fq(X, n):
    """field norm down to F_q as a polynomial (n = 2, 4); None if not supported"""
    if n == 2:
        r = X * X.conj(6)
        return r.c[0]
    if n == 4:
        n2 = X * X.conj(3)  # in F_q2
        r = n2 * n2.conj(6)
        return r.c[0]
    return None


# ------------------------------------------------------------------------------------------ groups
def subst_frac(p, var, num, den):
    """p with var := num/den, denominators cleared (den != 0 on the path): returns p * den^deg"""
    parts = {}
    for m, c in p.t.items():
        e = 0
        rest = []
        for v, k in m:
            if v == var:
                e = k
            else:
                rest.append((v, k))
        parts[e] = parts.get(e, Poly()) + Poly({tuple(rest): c})
    if list(parts) == [0] or not parts:
        return p
    d = max(parts)
    pn, pd = {0: Poly.const(1)}, {0: Poly.const(1)}
    for k in range(1, d + 1):
        pn[k] = pn[k - 1] * num
        pd[k] = pd[k - 1] * den
    r = Poly()
    for e, pe in parts.items():
        r = r + pe * pn[e] * pd[d - e]
    return r


def unit_multiple(p, q_):
    """is p == c*q_ for a non-zero constant c?"""
    if p.is_zero() or q_.is_zero():
        return p.is_zero() and q_.is_zero()
    if set(p.t) != set(q_.t):
        return False
    m0 = next(iter(p.t))
    c = p.t[m0] * pow(q_.t[m0], -1, Q) % Q
    return (p - q_ * c).is_zero()


def is_unit_product(p, atoms, maxe=4):
    """p == c * prod atoms^e (atoms are known non-zero on the path) ?"""
    import itertools
    if p.is_zero():
        return False
    atoms = [a for a in atoms if not a.is_zero() and a.degree() > 0]
    for es in itertools.product(range(maxe + 1), repeat=len(atoms)):
        t = Poly.const(1)
        for a, e in zip(atoms, es):
            for _ in range(e):
                t = t * a
        if t.degree() == p.degree() and unit_multiple(p, t):
            return True
    return False


class GroupCheck:
    """leaves of the generic G<P> code over an abstract commutative ring (symbolic coordinates, symbolic b)"""

    def __init__(self, ck, pfx, src='src/groups.rs'):
        self.ck, self.pfx, self.src = ck, pfx, src

    def pt(self, n, mode):
        Z = {'a': Poly.const(1), 'o': Poly.const(0)}.get(mode, V('Z' + n))
        return (V('X' + n), V('Y' + n), Z)

    def leaf_state(self, lf, P1, P2):
        """apply variable-level decisions (Z == 0 / Z == 1); classify the semantic predicates"""
        sub = {}
        nz = []
        rest = []
        for kind, p, o in lf.decisions():
            p = apply_sub(p, sub)
            if p.is_zero():
                continue
            vs = p.vars()
            if len(p.t) <= 2 and len(vs) == 1 and p.degree() == 1 and next(iter(vs)).startswith('Z'):
                v = next(iter(vs))
                c1 = p.t.get(((v, 1),), 0)
                c0 = p.t.get((), 0)
                val = (-c0 * pow(c1, -1, Q)) % Q
                if o:
                    sub[v] = Poly.const(val)
                else:
                    if val == 0:
                        nz.append(V(v))
                continue
            rest.append((p, o))
        P1 = tuple(apply_sub(c, sub) for c in P1)
        P2 = tuple(apply_sub(c, sub) for c in P2) if P2 else None
        return sub, nz, rest, P1, P2

    def preds(self, P1, P2):
        X1, Y1, Z1 = P1
        X2, Y2, Z2 = P2
        Hs = X2 * Z1 * Z1 - X1 * Z2 * Z2
        Rs = Y2 * Z1 * Z1 * Z1 - Y1 * Z2 * Z2 * Z2
        Ts = Y2 * Z1 * Z1 * Z1 + Y1 * Z2 * Z2 * Z2
        return Hs, Rs, Ts

    def classify(self, rest, sub, P1, P2):
        Hs, Rs, Ts = self.preds(P1, P2)
        st = {'h': None, 'r': None, 't': None}
        other = []
        for p, o in rest:
            p = apply_sub(p, sub)
            hit = False
            for k, sp in (('h', Hs), ('r', Rs), ('t', Ts)):
                if unit_multiple(p, sp):
                    st[k] = o
                    hit = True
            if not hit:
                other.append((p, o))
        return st, other

    FEAS = [(False, False, False), (False, False, True), (False, True, False), (True, True, False), (True, False, True)]

    def completions(self, st):
        out = []
        for h, r, t in self.FEAS:
            if all(st[k] is None or st[k] == v for k, v in (('h', h), ('r', r), ('t', t))):
                out.append((h, r, t))
        return out

    def case_subst(self, case, P1, P2, ysign=1):
        """rational substitutions (for the VARIABLES X2, Y2) making the TRUE predicates of the case hold
        (denominator Z1 != 0); ysign = -1 when the second operand is (X2, -Y2, Z2) (subtraction)"""
        h, r, t = case
        X1, Y1, Z1 = P1
        X2, Y2, Z2 = P2
        subs = []
        if h:
            subs.append(('X2', X1 * Z2 * Z2, Z1 * Z1))
        if r:
            subs.append(('Y2', (Y1 * Z2 * Z2 * Z2) * ysign, Z1 * Z1 * Z1))
        elif t:
            subs.append(('Y2', (Y1 * Z2 * Z2 * Z2) * (-ysign), Z1 * Z1 * Z1))
        return subs

    def same_point_diffs(self, R, A):
        """R (Jacobian triple) denotes the affine point A = (Frac x, Frac y): cross-multiplied residuals"""
        X3, Y3, Z3 = R
        ax, ay = A
        return [(Frac(X3, Z3 * Z3).same(ax)).c[0], (Frac(Y3, Z3 * Z3 * Z3).same(ay)).c[0]]

    def affine(self, P):
        X, Y, Z = P
        return Frac(X, Z * Z), Frac(Y, Z * Z * Z)

    def chord(self, P1, P2):
        (x1, y1), (x2, y2) = self.affine(P1), self.affine(P2)
        lam = (y2 - y1) / (x2 - x1)
        x3 = lam * lam - x1 - x2
        return x3, lam * (x1 - x3) - y1

    def tangent(self, P1):
        x1, y1 = self.affine(P1)
        lam = (x1 * x1 * 3) / (y1 * 2)
        x3 = lam * lam - x1 - x1
        return x3, lam * (x1 - x3) - y1

    def check_sum(self, task, li, lf, P1, P2, R, what, ysign=1):
        """R = P1 + P2 on this leaf (P2 already negated for sub)"""
        ck = self.ck
        nm = 'A-%s#%d' % (task, li)
        sub, nz, rest, P1, P2 = self.leaf_state(lf, P1, P2)
        R = tuple(apply_sub(c, sub) for c in R)
        Z1, Z2 = P1[2], P2[2]
        stmt = '%s: every leaf returns the chord-and-tangent sum (any representative)' % what
        if Z1.is_zero() and Z2.is_zero():
            return ck.identity(nm, stmt + ' [O + O = O]', lf, [R[2]], [self.src])
        if Z1.is_zero() or Z2.is_zero():
            other = P2 if Z1.is_zero() else P1
            d = self.same_point_diffs(R, self.affine(other))
            o = ck.identity(nm, stmt + ' [identity operand: result denotes the other operand]', lf, d, [self.src])
            if o.status == 'proved' and not is_unit_product(R[2], [other[2]]):
                o.status, o.detail = 'violated-unreplayed', 'identity + P returned a value whose z is not a unit multiple of z(P)'
            return o
        st, other = self.classify(rest, sub, P1, P2)
        cases = self.completions(st)
        if not cases:
            return ck.ok(nm, stmt, 'leaf infeasible for points on the curve (predicates %s)' % st, [self.src])
        worst = None
        for case in cases:
            h, r, t = case
            subs = self.case_subst(case, P1, P2, ysign)

            def ap(p):
                for v, n_, d_ in subs:
                    p = subst_frac(p, v, n_, d_)
                return p
            Hs, Rs, Ts = self.preds(P1, P2)
            label = {(False, False, False): 'independent', (False, False, True): 'opposite y, different x', (False, True, False): 'equal y, different x',
                     (True, True, False): 'equal points', (True, False, True): 'opposite points'}[case]
            z3c = ap(R[2])
            if h and not r:
                o = ck.identity(nm + ':' + label.replace(' ', '_'), stmt + ' [P + (-P) = O]', lf, [z3c], [self.src])
            else:
                A = self.tangent(P1) if h else self.chord(P1, P2)
                d = [ap(x) for x in self.same_point_diffs(R, A)]
                o = ck.identity(nm + ':' + label.replace(' ', '_'), stmt + ' [%s]' % label, lf, d, [self.src])
                atoms = [Z1, Z2] + ([P1[1]] if h else [ap(Hs)])
                if o.status == 'proved' and not is_unit_product(z3c, atoms):
                    if z3c.is_zero():
                        o.status = 'violated-unreplayed'
                        o.detail = 'returns the identity (z = 0) for %s points' % label
                    else:
                        o.status = 'inconclusive'
                        o.detail = 'z of the result is not a unit multiple of z1*z2*(x2-x1)'
            o.case = label
            if o.status != 'proved':
                worst = o
        return worst

    def run(self, by):
        ck, pfx = self.ck, self.pfx
        for m in ['aa', 'aj', 'ja', 'jj', 'oj', 'jo', 'oa', 'ao', 'oo']:
            for op in ('add', 'sub', 'addassign'):
                task = '%s_%s_%s' % (pfx, op, m)
                for li, lf in enumerate(by.get(task, [])):
                    if lf.panic:
                        ck.fail('A-%s#%d' % (task, li), 'no panic leaf', lf.panic, [self.src])
                        continue
                    P1, P2 = self.pt('1', m[0]), self.pt('2', m[1])
                    ys = 1
                    if op == 'sub':
                        P2 = (P2[0], -P2[1], P2[2])
                        ys = -1
                    outs = lf.outs()
                    self.check_sum(task, li, lf, P1, P2, tuple(outs[0:3]), 'G ' + op, ys)
                    if op == 'addassign':
                        self.check_sum(task + 'ref', li, lf, P1, P2, tuple(outs[3:6]), 'G += &', ys)
            task = '%s_eq_%s' % (pfx, m)
            for li, lf in enumerate(by.get(task, [])):
                self.check_eq(task, li, lf, self.pt('1', m[0]), self.pt('2', m[1]))
        for m in 'ajo':
            for li, lf in enumerate(by.get('%s_double_%s' % (pfx, m), [])):
                P1 = self.pt('1', m)
                sub, nz, rest, P1, _ = self.leaf_state(lf, P1, None)
                R = tuple(apply_sub(c, sub) for c in lf.outs()[0:3])
                nm = 'A-%s_double_%s#%d' % (pfx, m, li)
                if P1[2].is_zero():
                    ck.identity(nm, 'double(O) = O for every representation of the identity', lf, [R[2]], [self.src])
                else:
                    o = ck.identity(nm, 'double = tangent law (any representative)', lf, self.same_point_diffs(R, self.tangent(P1)), [self.src])
                    if o.status == 'proved' and not is_unit_product(R[2], [P1[1], P1[2]]):
                        o.status, o.detail = 'inconclusive', 'z of 2P is not a unit multiple of y*z'
            for li, lf in enumerate(by.get('%s_neg_%s' % (pfx, m), [])):
                P1 = self.pt('1', m)
                sub, nz, rest, P1, _ = self.leaf_state(lf, P1, None)
                R = tuple(apply_sub(c, sub) for c in lf.outs()[0:3])
                nm = 'A-%s_neg_%s#%d' % (pfx, m, li)
                if P1[2].is_zero():
                    ck.identity(nm, '-O = O', lf, [R[2]], [self.src])
                else:
                    x, y = self.affine(P1)
                    o = ck.identity(nm, '-P = (x, -y)', lf, self.same_point_diffs(R, (x, -y)), [self.src])
                    if o.status == 'proved' and not is_unit_product(R[2], [P1[2]]):
                        o.status, o.detail = 'inconclusive', 'z of -P is not a unit multiple of z'
            for li, lf in enumerate(by.get('%s_toaffine_%s' % (pfx, m), [])):
                P1 = self.pt('1', m)
                sub, nz, rest, P1, _ = self.leaf_state(lf, P1, None)
                outs = [apply_sub(c, sub) for c in lf.outs()]
                nm = 'A-%s_toaffine_%s#%d' % (pfx, m, li)
                if P1[2].is_zero():
                    (ck.ok if outs[0].is_zero() else ck.fail)(nm, 'to_affine is None exactly for z = 0', 'flag=%r' % outs[0], [self.src])
                elif outs[0].is_zero():
                    ck.fail(nm, 'to_affine is None exactly for z = 0', 'None returned on a path with z != 0', [self.src])
                else:
                    X, Y, Z = P1
                    ck.identity(nm, 'to_affine = (X/Z^2, Y/Z^3)', lf, [outs[1] * Z * Z - X, outs[2] * Z * Z * Z - Y], [self.src])
            for li, lf in enumerate(by.get('%s_iszero_%s' % (pfx, m), [])):
                P1 = self.pt('1', m)
                sub, nz, rest, P1, _ = self.leaf_state(lf, P1, None)
                flag = lf.outs()[0]
                nm = 'A-%s_iszero_%s#%d' % (pfx, m, li)
                (ck.ok if (flag == 1) == P1[2].is_zero() else ck.fail)(nm, 'is_zero exactly for z = 0 (any x, y)', 'flag=%r z=%r' % (flag, P1[2]), [self.src])
        for li, lf in enumerate(by.get(pfx + '_affine_new', [])):
            self.check_affine_new(li, lf)

    def check_eq(self, task, li, lf, P1, P2):
        ck = self.ck
        nm = 'A-%s#%d' % (task, li)
        if lf.panic:
            return ck.fail(nm, 'no panic leaf', lf.panic, [self.src])
        sub, nz, rest, P1, P2 = self.leaf_state(lf, P1, P2)
        flag = lf.outs()[0] == 1
        stmt = '== holds exactly when both values denote the same point (cross-multiplication; every z = 0 value is the identity)'
        z1, z2 = P1[2].is_zero(), P2[2].is_zero()
        if z1 or z2:
            want = z1 and z2
            return (ck.ok if flag == want else ck.fail)(nm, stmt, 'identity operands: flag=%s expected=%s' % (flag, want), [self.src])
        st, other = self.classify(rest, sub, P1, P2)
        cases = self.completions(st)
        bad = [c for c in cases if flag != (c[0] and c[1])]
        if other:
            return ck.fail(nm, stmt, 'equality decided by a quantity that is neither x- nor y-cross-difference: %r' % (other[0][0],), [self.src], status='inconclusive')
        if bad:
            return ck.fail(nm, stmt, 'returns %s for a feasible relation (x equal=%s, y equal=%s, y opposite=%s)' % ((flag,) + bad[0]), [self.src], cex={'eq_case': bad[0]})
        return ck.ok(nm, stmt, 'flag=%s consistent with all %d feasible relations of this leaf' % (flag, len(cases)), [self.src])

    def check_affine_new(self, li, lf):
        ck = self.ck
        nm = 'A-%s_affine_new#%d' % (self.pfx, li)
        if lf.panic:
            return ck.fail(nm, 'no panic leaf', lf.panic, [self.src])
        decs = lf.decisions()
        X, Y = V('X1'), V('Y1')
        b = V('B') if self.pfx == 'gabs' else Poly.const(5)
        curve = Y * Y - (X * X * X + b)
        ok = lf.outs()[0] == 1
        if not decs:
            return ck.fail(nm, 'AffineG::new checks the curve equation', 'no decision on this leaf', [self.src])
        first = decs[0]
        stmt = 'AffineG::new: Ok exactly when y^2 = x^3 + b (first decision is the curve equation; Ok carries exactly (x, y))'
        if not (unit_multiple(first[1], curve)):
            return ck.fail(nm, stmt, 'first decision is not the curve equation: %r' % (first[1],), [self.src])
        if ok != first[2]:
            return ck.fail(nm, stmt, 'Ok=%s although curve equation decided %s' % (ok, first[2]), [self.src])
        if ok:
            outs = lf.outs()
            if not ((outs[1] - X).is_zero() and (outs[2] - Y).is_zero()):
                return ck.fail(nm, stmt, 'Ok point does not carry the given coordinates', [self.src])
        return ck.ok(nm, stmt, 'decision polynomial = y^2 - x^3 - b; Ok <=> true', [self.src])
