"""Engine A obligations: every leaf of the real tower / group / pairing code (enumerated by the overlay
driver over symbolic base-field inputs) against specifications written from the SM9 standard.
An identity is sent to z3 as `some coefficient of (impl - spec) is non-zero mod q` over unconstrained
integers: unsat = the identity holds in every commutative ring in which q = 0, hence for ALL field inputs."""
import time, json, os
from poly import *
from common import Obl

TIMEOUT = 60000


def V(n):
    return Poly.var(n)


def t2(n):
    return from_fq2([V(n + '0'), V(n + '1')])


def t4(n):
    return from_fq2([V(n + '00'), V(n + '01')]) + from_fq2([V(n + '10'), V(n + '11')]) * V_


def t12(n):
    return t4f(n + '0') + t4f(n + '1') * Wg + t4f(n + '2') * Wg * Wg


V_ = T.of(1, 3)


def t4f(n):
    return from_fq2([V(n + '00'), V(n + '01')]) + from_fq2([V(n + '10'), V(n + '11')]) * V_


class Leaf:
    def __init__(self, d):
        self.d = d
        self.task = d['task']
        self.dag = Dag(d['dag'])
        self.pc = d.get('pc', [])
        self.panic = d.get('panic')
        self.out = d.get('out')

    def outs(self):
        return [self.dag.p(i) for i in self.out]

    def decisions(self):
        """[(kind, poly_a - poly_b, outcome)]"""
        r = []
        for kind, a, b, o in self.pc:
            if kind == 'eq':
                r.append((kind, self.dag.p(a) - self.dag.p(b), o))
            else:
                r.append((kind, self.dag.p(a), o))
        return r


def solve_subst(decs):
    """substitution {var: poly} from true equalities that are linear with unit coefficient in one variable"""
    sub = {}
    for kind, p, o in decs:
        if kind != 'eq' or not o:
            continue
        for v, pv in sub.items():
            p = p.subst(v, pv)
        if p.is_zero():
            continue
        done = False
        for m, c in sorted(p.t.items(), key=lambda x: len(x[0])):
            if len(m) == 1 and m[0][1] == 1 and not m[0][0].startswith(('inv#', 'sqrt#')):
                v = m[0][0]
                rest = Poly({mm: cc for mm, cc in p.t.items() if mm != m})
                if v in rest.vars():
                    continue
                sol = rest * (-pow(c, -1, Q))
                for k in list(sub):
                    sub[k] = sub[k].subst(v, sol)
                sub[v] = sol
                done = True
                break
        if not done:
            sub.setdefault('#unsolved', []).append(p) if False else None
    return sub


def apply_sub(p, sub):
    if not sub:
        return p
    # fast path: variables replaced by constants (typically 0): filter / scale monomials in one pass
    consts = {v: pv.t.get((), 0) for v, pv in sub.items() if pv.degree() == 0}
    if consts:
        r = {}
        for m, c in p.t.items():
            keep = []
            cc = c
            for v, e in m:
                if v in consts:
                    cc = cc * pow(consts[v], e, Q) % Q
                else:
                    keep.append((v, e))
            if cc:
                k = tuple(keep)
                nv = (r.get(k, 0) + cc) % Q
                if nv:
                    r[k] = nv
                else:
                    r.pop(k, None)
        p = Poly(r)
    for v, pv in sub.items():
        if v in consts:
            continue
        if v in p.vars():
            p = p.subst(v, pv)
    return p


def reduce_facts(p, facts, sub=None):
    """eliminate inverse / sqrt witnesses: returns list of polynomials that must all vanish.
    inv t with t*N = 1: multiply by N^deg and replace t^k N^k by 1.  sqrt s with s^2 = A: reduce s^2 -> A and
    require both the s-free part and the coefficient of s to vanish (identity must hold for either root)."""
    todo = [p]
    for kind, name, arg, _ in reversed(facts):
        if sub:
            arg = apply_sub(arg, sub)
        nxt = []
        for pp in todo:
            if name not in pp.vars():
                nxt.append(pp)
                continue
            parts = {}
            for m, c in pp.t.items():
                e = 0
                rest = []
                for v, k in m:
                    if v == name:
                        e = k
                    else:
                        rest.append((v, k))
                parts.setdefault(e, Poly())
                parts[e] = parts[e] + Poly({tuple(rest): c})
            if kind == 'inv':
                d = max(parts)
                acc = Poly()
                pw = {0: Poly.const(1)}
                for k in range(1, d + 1):
                    pw[k] = pw[k - 1] * arg
                for e, pe in parts.items():
                    acc = acc + pe * pw[d - e]
                nxt.append(acc)
            else:
                even, odd = Poly(), Poly()
                pw = {0: Poly.const(1)}
                for e, pe in parts.items():
                    h = e // 2
                    for k in range(1, h + 1):
                        if k not in pw:
                            pw[k] = pw[k - 1] * arg
                    if e % 2 == 0:
                        even = even + pe * pw[h]
                    else:
                        odd = odd + pe * pw[h]
                nxt.append(even)
                nxt.append(odd)
        todo = nxt
    return todo


class Checker:
    def __init__(self, pid, seed=0):
        self.pid = pid
        self.obls = []
        self.seed = seed

    def identity(self, name, statement, leaf, diffs, functions, extra_note='', raw=None, replay=None):
        """diffs: list of Poly that must vanish identically (after facts/substitution)."""
        o = Obl(name, 'A', statement, functions, 'all field elements (symbolic coordinates, no bound); path: %d decisions' % len(leaf.pc),
                ['base field modelled as Z/q with the contracts proved by engine L (mul, squared, sum_of_products, div2)'])
        t0 = time.time()
        decs = leaf.decisions()
        sub = solve_subst(decs)
        red = []
        for d in diffs:
            d = apply_sub(d, sub)
            red += reduce_facts(d, leaf.dag.facts, sub)
        nz = [p for p in red if not p.is_zero()]
        if raw and not leaf.dag.facts and not sub:
            # z3 decides on the UN-normalised expression DAG of the implementation against the spec polynomial
            import z3 as _z3
            zvars = {}

            def zv(n):
                if n not in zvars:
                    zvars[n] = _z3.Int(n.replace('#', '_'))
                return zvars[n]
            cache = {}
            sv = _z3.Solver()
            sv.set('timeout', TIMEOUT)
            dis = []
            for nid, sp in raw:
                dis.append((leaf.dag.z3expr(nid, zv, cache) - sp.to_z3(zv)) % Q != 0)
            sv.add(_z3.Or(*dis))
            rr = sv.check()
            r = str(rr)
            mdl = None
            if rr == _z3.sat:
                m = sv.model()
                mdl = {n: (m.eval(v, model_completion=True).as_long() % Q) for n, v in zvars.items()}
            extra_note += ' [z3 on the raw expression DAG: %s]' % r
            if r != 'unsat' and not nz:
                r2, _, _ = z3_identity(red, TIMEOUT)
        else:
            r, mdl, secs = z3_identity(red, TIMEOUT)
        o.queries = 1
        o.seconds = time.time() - t0
        o.vacuity = 'leaf reached by concrete path enumeration'
        if r == 'unsat':
            o.status = 'proved'
            o.detail = 'z3: unsat (%d residual polynomials, %d identically zero after normalisation mod q)%s' % (len(red), len(red) - len(nz), extra_note)
        else:
            env = mdl if (r == 'sat' and mdl) else find_nonroot(nz, self.seed)
            if not nz:
                o.status = 'proved'
                o.detail = 'z3: %s; polynomial normal form mod q is identically zero (own decision procedure)' % r
            else:
                o.status = 'violated-unreplayed'
                o.cex = env
                o.detail = 'identity refuted (z3: %s): residual polynomial of degree %d, e.g. %r' % (r, nz[0].degree(), nz[0])
        o.replay = replay
        self.obls.append(o)
        return o

    def fail(self, name, statement, detail, functions=None, status='violated-unreplayed', cex=None, replay=None):
        o = Obl(name, 'A', statement, functions or [], '', [])
        o.status = status
        o.detail = detail
        o.cex = cex
        o.replay = replay
        o.queries = 1
        self.obls.append(o)
        return o

    def ok(self, name, statement, detail, functions=None):
        o = Obl(name, 'A', statement, functions or [], '', [])
        o.status = 'proved'
        o.detail = detail
        o.queries = 1
        o.vacuity = 'leaf reached by concrete path enumeration of the real code (decision vector replayed)'
        self.obls.append(o)
        return o


def tower_diffs(outs, spec, n):
    """outs: list of n polys (coordinates); spec: tower element"""
    want = coords(spec, n)
    d = [a - b for a, b in zip(outs, want)]
    idx = set({1: [0], 2: IDX2, 4: IDX4, 12: IDX12}[n])
    d += [spec.c[i] for i in range(12) if i not in idx]  # spec must lie in the subfield
    return d


# ------------------------------------------------------------------------------------------ tower families
def tower_specs():
    x2, y2 = t2('x'), t2('y')
    x4, y4 = t4f('x'), t4f('y')
    x12, y12 = t12('x'), t12('y')
    s = tw(V('s'))
    S = {}
    S['fq2'] = {
        'fq2_mul': (2, [x2 * y2]),
        'fq2_mul_forms': (2, [x2 * y2] * 4),
        'fq2_sq': (2, [x2 * x2]),
        'fq2_scale': (2, [x2 * s]),
        'fq2_mulnr': (2, [x2 * U]),
        'fq2_conj': (2, [x2.conj(6)]),
        'fq2_add': (2, [x2 + y2]),
        'fq2_sub': (2, [x2 - y2]),
        'fq2_neg': (2, [-x2]),
        'fq2_double': (2, [x2 + x2]),
        'fq2_triple': (2, [x2 + x2 + x2]),
        'fq2_i_one_zero': (2, [U, tw(1), tw(0)]),
    }
    s2 = t2('s')
    S['fq4'] = {
        'fq4_mul': (4, [x4 * y4]),
        'fq4_mul1': (4, [x4 * (from_fq2([V('y10'), V('y11')]) * V_)]),
        'fq4_sq': (4, [x4 * x4]),
        'fq4_scale': (4, [x4 * s2]),
        'fq4_scale_fq': (4, [x4 * s]),
        'fq4_mulnr': (4, [x4 * V_]),
        'fq4_conj': (4, [x4.conj(3)]),
        'fq4_add': (4, [x4 + y4]),
        'fq4_sub': (4, [x4 - y4]),
        'fq4_neg': (4, [-x4]),
        'fq4_double': (4, [x4 + x4]),
        'fq4_triple': (4, [x4 + x4 + x4]),
        'fq4_one_zero': (4, [tw(1), tw(0)]),
    }
    s4 = t4f('s')
    ysp = t4f('y0') + (from_fq2([V('y210'), V('y211')]) * V_) * Wg * Wg
    S['fq12'] = {
        'fq12_mul': (12, [x12 * y12]),
        'fq12_mul015': (12, [x12 * ysp]),
        'fq12_sq': (12, [x12 * x12]),
        'fq12_scale': (12, [x12 * s4]),
        'fq12_mulnr': (12, [x12 * Wg]),
        'fq12_add': (12, [x12 + y12]),
        'fq12_sub': (12, [x12 - y12]),
        'fq12_neg': (12, [-x12]),
        'fq12_one_zero': (12, [tw(1), tw(0)]),
        'fq12_frob_1': (12, [frobenius(x12, 1)]),
        'fq12_frob_2': (12, [frobenius(x12, 2)]),
        'fq12_frob_3': (12, [frobenius(x12, 3)]),
        'fq12_frob_6': (12, [frobenius(x12, 6)]),
        'fq12_pow_0': (12, [tw(1)]),
        'fq12_pow_1': (12, [x12]),
        'fq12_pow_2': (12, [x12 * x12]),
        'fq12_pow_3': (12, [x12 * x12 * x12]),
    }
    return S


# Fq4::frobenius_map(k): the code applies, per F_q12 coefficient c_i (i = k % 10), the map
# c -> c^(q^j) * w^(i*(q^j-1))  with j = k // 10, so that Fq12::frobenius_map(j) is assembled from them.
def fq4_frob_spec(k):
    j, i = k // 10, k % 10
    x4 = t4f('x')
    el = x4 * (Wg if i >= 1 else tw(1)) * (Wg if i >= 2 else tw(1))
    fr_ = frobenius(el, j)
    # the result must be c' * w^i with c' in F_q4: divide by w^i = shift exponents down by i
    c = [P0] * 12
    for e in range(12):
        if not fr_.c[e].is_zero():
            if e - i < 0:
                return None
            c[e - i] = fr_.c[e]
    return T(c)


def check_tower(ck, leaves_by_task, family, names=None):
    S = tower_specs()[family]
    fn = {'fq2': 'src/fields/fq2.rs', 'fq4': 'src/fields/fq4.rs', 'fq12': 'src/fields/fq12.rs'}[family]
    for task, (n, specs) in S.items():
        if names and task not in names:
            continue
        lv = leaves_by_task.get(task, [])
        if not lv:
            ck.fail('A-' + task, 'leaves enumerated', 'no leaf produced for task ' + task, status='inconclusive')
            continue
        for li, lf in enumerate(lv):
            nm = 'A-%s%s' % (task, ('#%d' % li) if len(lv) > 1 else '')
            if lf.panic:
                ck.fail(nm, task + ': no panic leaf', 'panic on a reachable path: ' + lf.panic, [fn], cex=None)
                continue
            outs = lf.outs()
            d = []
            raw = []
            for k, sp in enumerate(specs):
                d += tower_diffs(outs[k * n:(k + 1) * n], sp, n)
                raw += list(zip(lf.out[k * n:(k + 1) * n], coords(sp, n)))
            ck.identity(nm, '%s equals the operation in F_q[w]/(w^12+2) (u=w^6, v=w^3) on all elements' % task, lf, d, [fn + ':' + task], raw=raw,
                        replay=dict(kind='tower', task=task, specs=[c for sp in specs for c in coords(sp, n)]))
    if family == 'fq4':
        for k in (10, 11, 12, 21, 22, 30, 31, 32):
            task = 'fq4_frob_%d' % k
            if names and task not in names:
                continue
            for li, lf in enumerate(leaves_by_task.get(task, [])):
                if lf.panic:
                    ck.fail('A-' + task, 'no panic', lf.panic)
                    continue
                sp = fq4_frob_spec(k)
                ck.identity('A-' + task, 'Fq4::frobenius_map(%d) = (c*w^%d)^(q^%d) / w^%d, constants recomputed from q' % (k, k % 10, k // 10, k % 10), lf,
                            tower_diffs(lf.outs(), sp, 4), ['src/fields/fq4.rs:frobenius_map'], raw=list(zip(lf.out, coords(sp, 4))),
                            replay=dict(kind='tower', task=task, specs=coords(sp, 4)))


def check_inverse(ck, leaves, n, task, fnname):
    """x.inverse(): Some(i) with x*i = 1 on the path norm != 0; None exactly on the path where the decided
    quantity is the field norm of x down to F_q (zero only for x = 0)"""
    mk = {2: t2, 4: t4f, 12: t12}[n]
    X = mk('x')
    memo = {}
    for li, lf in enumerate(leaves):
        nm = 'A-%s#%d' % (task, li)
        if lf.panic:
            ck.fail(nm, 'no panic leaf', lf.panic, [fnname])
            continue
        # leaves that differ only in decisions not affecting the result share one expression DAG: decide it once
        sig = (tuple(json.dumps(lf.dag.n[i]) for i in lf.out), tuple(sorted(str(d_[:3]) for d_ in lf.pc if d_[3])))
        okey = tuple(lf.out)
        outs = lf.outs()
        flag = outs[0]
        if flag == 1:
            mkey = tuple(str(sorted(o_.t.items())[:40]) + str(len(o_.t)) for o_ in outs[1:1 + n])
            if mkey in memo and not [d_ for d_ in lf.decisions() if d_[0] == 'eq' and d_[2]]:
                prev = memo[mkey]
                o = ck.ok(nm, '%s: x * inverse(x) = 1 for every non-zero x' % task, 'same result expressions as %s (decided there): %s' % (prev.name, prev.detail[:120]), [fnname])
                o.status = prev.status if prev.status != 'violated-unreplayed' else 'violated-unreplayed'
                o.replay = getattr(prev, 'replay', None)
                continue
            I = {2: from_fq2, 4: from_fq4, 12: from_fq12}[n](outs[1:1 + n])
            d = (X * I - 1)
            o = ck.identity(nm, '%s: x * inverse(x) = 1 for every non-zero x' % task, lf, list(d.c), [fnname], replay=dict(kind='inverse', task=task, n=n))
            if not [d_ for d_ in lf.decisions() if d_[0] == 'eq' and d_[2]]:
                memo[mkey] = o
        else:
            # None leaf: the last true decision must be "N == 0" with N the norm of x to F_q (up to sign)
            decs = [d for d in lf.decisions() if d[0] == 'eq' and d[2]]
            N = X
            if n == 12:
                # norm F_q12 -> F_q4: product of the three conjugates under w -> zeta w ; equivalently x * adj(x)
                pass
            ok = False
            if decs:
                got = decs[-1][1]
                want = norm_to_fq(X, n)
                if want is not None and (got - want).is_zero() or (want is not None and (got + want).is_zero()):
                    ok = True
            if ok:
                ck.ok(nm, '%s: None exactly when the norm to F_q vanishes (i.e. x = 0)' % task, 'decided quantity equals the field norm polynomial', [fnname])
            else:
                ck.fail(nm, '%s: None only for x = 0' % task, 'None leaf whose deciding quantity is not the field norm of x', [fnname], status='inconclusive')


def norm_to_fq(X, n):
    """field norm down to F_q as a polynomial (n = 2, 4); None if not supported"""
    if n == 2:
        r = X * X.conj(6)
        return r.c[0]
    if n == 4:
        n2 = X * X.conj(3)  # in F_q2
        r = n2 * n2.conj(6)
        return r.c[0]
    if n == 12:
        # norm F_q12 -> F_q4 = x * x^(q^4) * x^(q^8) (the conjugates over F_q4), then down to F_q as above
        n4 = X * frobenius(X, 4) * frobenius(X, 8)
        if not in_subring(n4, 4):
            return None
        n2 = n4 * n4.conj(3)
        r = n2 * n2.conj(6)
        return r.c[0]
    return None


# ------------------------------------------------------------------------------------------ groups
def subst_frac(p, var, num, den):
    """p with var := num/den, denominators cleared (den != 0 on the path): returns p * den^deg"""
    parts = {}
    for m, c in p.t.items():
        e = 0
        rest = []
        for v, k in m:
            if v == var:
                e = k
            else:
                rest.append((v, k))
        parts[e] = parts.get(e, Poly()) + Poly({tuple(rest): c})
    if list(parts) == [0] or not parts:
        return p
    d = max(parts)
    pn, pd = {0: Poly.const(1)}, {0: Poly.const(1)}
    for k in range(1, d + 1):
        pn[k] = pn[k - 1] * num
        pd[k] = pd[k - 1] * den
    r = Poly()
    for e, pe in parts.items():
        r = r + pe * pn[e] * pd[d - e]
    return r


def unit_multiple(p, q_):
    """is p == c*q_ for a non-zero constant c?"""
    if p.is_zero() or q_.is_zero():
        return p.is_zero() and q_.is_zero()
    if set(p.t) != set(q_.t):
        return False
    m0 = next(iter(p.t))
    c = p.t[m0] * pow(q_.t[m0], -1, Q) % Q
    return (p - q_ * c).is_zero()


def is_unit_product(p, atoms, maxe=4):
    """p == c * prod atoms^e (atoms are known non-zero on the path) ?"""
    import itertools
    if p.is_zero():
        return False
    atoms = [a for a in atoms if not a.is_zero() and a.degree() > 0]
    for es in itertools.product(range(maxe + 1), repeat=len(atoms)):
        t = Poly.const(1)
        for a, e in zip(atoms, es):
            for _ in range(e):
                t = t * a
        if t.degree() == p.degree() and unit_multiple(p, t):
            return True
    return False


class GroupCheck:
    """leaves of the generic G<P> code over an abstract commutative ring (symbolic coordinates, symbolic b)"""

    def __init__(self, ck, pfx, src='src/groups.rs'):
        self.ck, self.pfx, self.src = ck, pfx, src

    def pt(self, n, mode):
        Z = {'a': Poly.const(1), 'o': Poly.const(0)}.get(mode, V('Z' + n))
        return (V('X' + n), V('Y' + n), Z)

    def leaf_state(self, lf, P1, P2):
        """apply variable-level decisions (Z == 0 / Z == 1); classify the semantic predicates"""
        sub = {}
        nz = []
        rest = []
        for kind, p, o in lf.decisions():
            p = apply_sub(p, sub)
            if p.is_zero():
                continue
            vs = p.vars()
            if len(p.t) == 1 and len(vs) == 1 and next(iter(vs)).startswith('Z'):
                # c * Z^k == 0  <=>  Z == 0 (integral domain)
                v = next(iter(vs))
                if o:
                    sub[v] = Poly.const(0)
                else:
                    nz.append(V(v))
                continue
            if len(p.t) <= 2 and len(vs) == 1 and p.degree() == 1 and next(iter(vs)).startswith('Z'):
                v = next(iter(vs))
                c1 = p.t.get(((v, 1),), 0)
                c0 = p.t.get((), 0)
                val = (-c0 * pow(c1, -1, Q)) % Q
                if o:
                    sub[v] = Poly.const(val)
                else:
                    if val == 0:
                        nz.append(V(v))
                continue
            rest.append((p, o))
        P1 = tuple(apply_sub(c, sub) for c in P1)
        P2 = tuple(apply_sub(c, sub) for c in P2) if P2 else None
        return sub, nz, rest, P1, P2

    def preds(self, P1, P2):
        X1, Y1, Z1 = P1
        X2, Y2, Z2 = P2
        Hs = X2 * Z1 * Z1 - X1 * Z2 * Z2
        Rs = Y2 * Z1 * Z1 * Z1 - Y1 * Z2 * Z2 * Z2
        Ts = Y2 * Z1 * Z1 * Z1 + Y1 * Z2 * Z2 * Z2
        return Hs, Rs, Ts

    def classify(self, rest, sub, P1, P2):
        Hs, Rs, Ts = self.preds(P1, P2)
        st = {'h': None, 'r': None, 't': None}
        other = []
        for p, o in rest:
            p = apply_sub(p, sub)
            hit = False
            for k, sp in (('h', Hs), ('r', Rs), ('t', Ts)):
                if unit_multiple(p, sp):
                    st[k] = o
                    hit = True
            if not hit:
                other.append((p, o))
        return st, other

    FEAS = [(False, False, False), (False, False, True), (False, True, False), (True, True, False), (True, False, True)]

    def completions(self, st):
        out = []
        for h, r, t in self.FEAS:
            if all(st[k] is None or st[k] == v for k, v in (('h', h), ('r', r), ('t', t))):
                out.append((h, r, t))
        return out

    def case_subst(self, case, P1, P2, ysign=1):
        """rational substitutions (for the VARIABLES X2, Y2) making the TRUE predicates of the case hold
        (denominator Z1 != 0); ysign = -1 when the second operand is (X2, -Y2, Z2) (subtraction)"""
        h, r, t = case
        X1, Y1, Z1 = P1
        X2, Y2, Z2 = P2
        subs = []
        if h:
            subs.append(('X2', X1 * Z2 * Z2, Z1 * Z1))
        if r:
            subs.append(('Y2', (Y1 * Z2 * Z2 * Z2) * ysign, Z1 * Z1 * Z1))
        elif t:
            subs.append(('Y2', (Y1 * Z2 * Z2 * Z2) * (-ysign), Z1 * Z1 * Z1))
        return subs

    def same_point_diffs(self, R, A):
        """R (Jacobian triple) denotes the affine point A = (Frac x, Frac y): cross-multiplied residuals"""
        X3, Y3, Z3 = R
        ax, ay = A
        return [(Frac(X3, Z3 * Z3).same(ax)).c[0], (Frac(Y3, Z3 * Z3 * Z3).same(ay)).c[0]]

    def affine(self, P):
        X, Y, Z = P
        return Frac(X, Z * Z), Frac(Y, Z * Z * Z)

    def chord(self, P1, P2):
        (x1, y1), (x2, y2) = self.affine(P1), self.affine(P2)
        lam = (y2 - y1) / (x2 - x1)
        x3 = lam * lam - x1 - x2
        return x3, lam * (x1 - x3) - y1

    def tangent(self, P1):
        x1, y1 = self.affine(P1)
        lam = (x1 * x1 * 3) / (y1 * 2)
        x3 = lam * lam - x1 - x1
        return x3, lam * (x1 - x3) - y1

    def check_sum(self, task, li, lf, P1, P2, R, what, ysign=1):
        """R = P1 + P2 on this leaf (P2 already negated for sub)"""
        o = self._check_sum(task, li, lf, P1, P2, R, what, ysign)
        return o

    def _check_sum(self, task, li, lf, P1, P2, R, what, ysign=1):
        ck = self.ck
        parts = task.split('_')
        rp = lambda case: dict(kind='group', op=parts[1].replace('ref', ''), modes=parts[2], case=case)
        nm = 'A-%s#%d' % (task, li)
        sub, nz, rest, P1, P2 = self.leaf_state(lf, P1, P2)
        R = tuple(apply_sub(c, sub) for c in R)
        Z1, Z2 = P1[2], P2[2]
        stmt = '%s: every leaf returns the chord-and-tangent sum (any representative)' % what
        if Z1.is_zero() and Z2.is_zero():
            return ck.identity(nm, stmt + ' [O + O = O]', lf, [R[2]], [self.src], replay=rp('independent'))
        if Z1.is_zero() or Z2.is_zero():
            other = P2 if Z1.is_zero() else P1
            d = self.same_point_diffs(R, self.affine(other))
            o = ck.identity(nm, stmt + ' [identity operand: result denotes the other operand]', lf, d, [self.src], replay=rp('independent'))
            if o.status == 'proved' and not is_unit_product(R[2], [other[2]]):
                o.status, o.detail = 'violated-unreplayed', 'identity + P returned a value whose z is not a unit multiple of z(P)'
            return o
        st, other = self.classify(rest, sub, P1, P2)
        cases = self.completions(st)
        if not cases:
            return ck.ok(nm, stmt, 'leaf infeasible for points on the curve (predicates %s)' % st, [self.src])
        worst = None
        for case in cases:
            h, r, t = case
            subs = self.case_subst(case, P1, P2, ysign)

            def ap(p):
                for v, n_, d_ in subs:
                    p = subst_frac(p, v, n_, d_)
                return p
            Hs, Rs, Ts = self.preds(P1, P2)
            label = {(False, False, False): 'independent', (False, False, True): 'opposite y, different x', (False, True, False): 'equal y, different x',
                     (True, True, False): 'equal points', (True, False, True): 'opposite points'}[case]
            z3c = ap(R[2])
            if h and not r:
                o = ck.identity(nm + ':' + label.replace(' ', '_'), stmt + ' [P + (-P) = O]', lf, [z3c], [self.src], replay=rp(label))
            else:
                A = self.tangent(P1) if h else self.chord(P1, P2)
                d = [ap(x) for x in self.same_point_diffs(R, A)]
                o = ck.identity(nm + ':' + label.replace(' ', '_'), stmt + ' [%s]' % label, lf, d, [self.src], replay=rp(label))
                atoms = [Z1, Z2] + ([P1[1]] if h else [ap(Hs)])
                if o.status == 'proved' and not is_unit_product(z3c, atoms):
                    if z3c.is_zero():
                        o.status = 'violated-unreplayed'
                        o.detail = 'returns the identity (z = 0) for %s points' % label
                    else:
                        o.status = 'inconclusive'
                        o.detail = 'z of the result is not a unit multiple of z1*z2*(x2-x1)'
            o.case = label
            if o.status != 'proved':
                worst = o
        return worst

    def run(self, by):
        ck, pfx = self.ck, self.pfx
        for m in ['aa', 'aj', 'ja', 'jj', 'oj', 'jo', 'oa', 'ao', 'oo']:
            for op in ('add', 'sub', 'addassign'):
                task = '%s_%s_%s' % (pfx, op, m)
                for li, lf in enumerate(by.get(task, [])):
                    if lf.panic:
                        ck.fail('A-%s#%d' % (task, li), 'no panic leaf', lf.panic, [self.src])
                        continue
                    P1, P2 = self.pt('1', m[0]), self.pt('2', m[1])
                    ys = 1
                    if op == 'sub':
                        P2 = (P2[0], -P2[1], P2[2])
                        ys = -1
                    outs = lf.outs()
                    self.check_sum(task, li, lf, P1, P2, tuple(outs[0:3]), 'G ' + op, ys)
                    if op == 'addassign':
                        self.check_sum(task + 'ref', li, lf, P1, P2, tuple(outs[3:6]), 'G += &', ys)
            task = '%s_eq_%s' % (pfx, m)
            for li, lf in enumerate(by.get(task, [])):
                self.check_eq(task, li, lf, self.pt('1', m[0]), self.pt('2', m[1]))
        for m in 'ajo':
            for li, lf in enumerate(by.get('%s_double_%s' % (pfx, m), [])):
                P1 = self.pt('1', m)
                sub, nz, rest, P1, _ = self.leaf_state(lf, P1, None)
                R = tuple(apply_sub(c, sub) for c in lf.outs()[0:3])
                nm = 'A-%s_double_%s#%d' % (pfx, m, li)
                if P1[2].is_zero():
                    ck.identity(nm, 'double(O) = O for every representation of the identity', lf, [R[2]], [self.src], replay=dict(kind='group', op='double', modes=m, case='independent'))
                else:
                    o = ck.identity(nm, 'double = tangent law (any representative)', lf, self.same_point_diffs(R, self.tangent(P1)), [self.src], replay=dict(kind='group', op='double', modes=m, case='independent'))
                    if o.status == 'proved' and not is_unit_product(R[2], [P1[1], P1[2]]):
                        o.status, o.detail = 'inconclusive', 'z of 2P is not a unit multiple of y*z'
            for li, lf in enumerate(by.get('%s_neg_%s' % (pfx, m), [])):
                P1 = self.pt('1', m)
                sub, nz, rest, P1, _ = self.leaf_state(lf, P1, None)
                R = tuple(apply_sub(c, sub) for c in lf.outs()[0:3])
                nm = 'A-%s_neg_%s#%d' % (pfx, m, li)
                if P1[2].is_zero():
                    ck.identity(nm, '-O = O', lf, [R[2]], [self.src], replay=dict(kind='group', op='neg', modes=m, case='independent'))
                else:
                    x, y = self.affine(P1)
                    o = ck.identity(nm, '-P = (x, -y)', lf, self.same_point_diffs(R, (x, -y)), [self.src], replay=dict(kind='group', op='neg', modes=m, case='independent'))
                    if o.status == 'proved' and not is_unit_product(R[2], [P1[2]]):
                        o.status, o.detail = 'inconclusive', 'z of -P is not a unit multiple of z'
            for li, lf in enumerate(by.get('%s_toaffine_%s' % (pfx, m), [])):
                P1 = self.pt('1', m)
                sub, nz, rest, P1, _ = self.leaf_state(lf, P1, None)
                outs = [apply_sub(c, sub) for c in lf.outs()]
                nm = 'A-%s_toaffine_%s#%d' % (pfx, m, li)
                if P1[2].is_zero():
                    (ck.ok if outs[0].is_zero() else ck.fail)(nm, 'to_affine is None exactly for z = 0', 'flag=%r' % outs[0], [self.src])
                elif outs[0].is_zero():
                    ck.fail(nm, 'to_affine is None exactly for z = 0', 'None returned on a path with z != 0', [self.src])
                else:
                    X, Y, Z = P1
                    ck.identity(nm, 'to_affine = (X/Z^2, Y/Z^3)', lf, [outs[1] * Z * Z - X, outs[2] * Z * Z * Z - Y], [self.src], replay=dict(kind='group', op='toaffine', modes=m, case='independent'))
            for li, lf in enumerate(by.get('%s_iszero_%s' % (pfx, m), [])):
                P1 = self.pt('1', m)
                sub, nz, rest, P1, _ = self.leaf_state(lf, P1, None)
                flag = lf.outs()[0]
                nm = 'A-%s_iszero_%s#%d' % (pfx, m, li)
                (ck.ok if (flag == 1) == P1[2].is_zero() else ck.fail)(nm, 'is_zero exactly for z = 0 (any x, y)', 'flag=%r z=%r' % (flag, P1[2]), [self.src])
        for li, lf in enumerate(by.get(pfx + '_affine_new', [])):
            self.check_affine_new(li, lf)

    def check_eq(self, task, li, lf, P1, P2):
        ck = self.ck
        nm = 'A-%s#%d' % (task, li)
        if lf.panic:
            return ck.fail(nm, 'no panic leaf', lf.panic, [self.src])
        sub, nz, rest, P1, P2 = self.leaf_state(lf, P1, P2)
        flag = lf.outs()[0] == 1
        stmt = '== holds exactly when both values denote the same point (cross-multiplication; every z = 0 value is the identity)'
        z1, z2 = P1[2].is_zero(), P2[2].is_zero()
        if z1 or z2:
            want = z1 and z2
            return (ck.ok if flag == want else ck.fail)(nm, stmt, 'identity operands: flag=%s expected=%s' % (flag, want), [self.src])
        st, other = self.classify(rest, sub, P1, P2)
        cases = self.completions(st)
        bad = [c for c in cases if flag != (c[0] and c[1])]
        if other:
            return ck.fail(nm, stmt, 'equality decided by a quantity that is neither x- nor y-cross-difference: %r' % (other[0][0],), [self.src], status='inconclusive')
        if bad:
            label = {(False, False, False): 'independent', (False, False, True): 'opposite y, different x', (False, True, False): 'equal y, different x', (True, True, False): 'equal points', (True, False, True): 'opposite points'}[bad[0]]
            return ck.fail(nm, stmt, 'returns %s for a feasible relation (x equal=%s, y equal=%s, y opposite=%s)' % ((flag,) + bad[0]), [self.src], replay=dict(kind='group', op='eq', modes=task.split('_')[2], case=label))
        return ck.ok(nm, stmt, 'flag=%s consistent with all %d feasible relations of this leaf' % (flag, len(cases)), [self.src])

    def check_affine_new(self, li, lf):
        ck = self.ck
        nm = 'A-%s_affine_new#%d' % (self.pfx, li)
        if lf.panic:
            return ck.fail(nm, 'no panic leaf', lf.panic, [self.src])
        decs = lf.decisions()
        X, Y = V('X1'), V('Y1')
        b = V('B') if self.pfx == 'gabs' else Poly.const(5)
        curve = Y * Y - (X * X * X + b)
        ok = lf.outs()[0] == 1
        if not decs:
            return ck.fail(nm, 'AffineG::new checks the curve equation', 'no decision on this leaf', [self.src])
        first = decs[0]
        stmt = 'AffineG::new: Ok exactly when y^2 = x^3 + b (first decision is the curve equation; Ok carries exactly (x, y))'
        if not (unit_multiple(first[1], curve)):
            return ck.fail(nm, stmt, 'first decision is not the curve equation: %r' % (first[1],), [self.src])
        if ok != first[2]:
            return ck.fail(nm, stmt, 'Ok=%s although curve equation decided %s' % (ok, first[2]), [self.src])
        if ok:
            outs = lf.outs()
            if not ((outs[2] - X).is_zero() and (outs[3] - Y).is_zero()):
                return ck.fail(nm, stmt, 'Ok point does not carry the given coordinates', [self.src])
        return ck.ok(nm, stmt, 'decision polynomial = y^2 - x^3 - b; Ok <=> true', [self.src])


def finalize(ck, pid):
    """replay every refuted obligation natively before it is reported"""
    import algreplay
    from common import write_replay
    for o in ck.obls:
        if o.status != 'violated-unreplayed':
            continue
        rp = getattr(o, 'replay', None)
        rep, wit = False, {}
        try:
            if rp and rp['kind'] == 'group':
                for sd in range(2):
                    rep, wit = algreplay.replay_group(rp['op'], rp['modes'], rp['case'], sd)
                    if rep:
                        break
            elif rp and rp['kind'] == 'pow':
                rep, wit = algreplay.replay_pow([rp['k']])
            elif rp and rp['kind'] == 'finalexp':
                rep, wit = algreplay.replay_finalexp()
            elif rp and rp['kind'] == 'sqrt':
                rep, wit = algreplay.replay_sqrt(rp['family'])
            elif rp and rp['kind'] == 'wrap':
                rep, wit = algreplay.replay_wrap(rp['entry'], rp['modes'])
            elif rp and rp['kind'] == 'tower':
                envs = []
                if getattr(o, 'cex', None):
                    envs.append(o.cex)
                import random
                vs = sorted(set().union(*[p.vars() for p in rp['specs']])) if rp['specs'] else []
                for sd in range(3):
                    r = random.Random(99 + sd)
                    envs.append({v: r.randrange(Q) for v in vs})
                for env in envs:
                    env = {v: env.get(v, 1) for v in vs}
                    rep, wit = algreplay.replay_tower(rp['task'], env, rp['specs'], len(rp['specs']))
                    if rep:
                        break
            elif rp and rp['kind'] == 'inverse':
                import random
                n = rp['n']
                names = {2: ['x0', 'x1'], 4: ['x00', 'x01', 'x10', 'x11'],
                         12: ['x%d%d%d' % (i, j, k) for i in range(3) for j in range(2) for k in range(2)]}[n]
                idx = {2: IDX2, 4: IDX4, 12: IDX12}[n]
                for sd in range(4):
                    r = random.Random(7 + sd)
                    env = {v: r.randrange(Q) for v in names}
                    if sd == 1 and n == 12:   # an element of the F_q4 subfield
                        for v in names[4:]:
                            env[v] = 0
                    out, err = algreplay.native_alg(rp['task'], env)
                    if out is None:
                        wit = {'error': err}
                        break
                    xs = [0] * 12
                    ys = [0] * 12
                    for v, i in zip(names, idx):
                        xs[i] = env[v]
                    for val, i in zip(out[1:1 + n], idx):
                        ys[i] = val
                    prod = nmul(xs, ys)
                    if out[0] != 1 or prod != [1] + [0] * 11:
                        rep, wit = True, {'task': rp['task'], 'inputs': {k: '%064x' % v for k, v in env.items()}, 'native_output': ['%064x' % x for x in out], 'mismatch': 'x * inverse(x) != 1'}
                        break
        except Exception as e:  # replay machinery failure is never a verdict
            wit = {'error': repr(e)}
        if rep:
            o.status = 'violated'
            o.witness = write_replay(pid, o.name, dict(property=pid, engine='A', obligation=o.name, statement=o.statement, solver_detail=o.detail, native_replay=wit,
                                                        how_to_replay='./check %s --replay <this file>' % pid))
            o.detail = 'reproduced natively on the real build: %s | %s' % (wit.get('mismatch', 'output differs from the reference'), o.detail)
        else:
            o.status = 'inconclusive'
            o.detail = 'solver refuted the obligation but native replay did not reproduce it (%s): %s' % (wit.get('error', 'outputs agree with the reference on the tried witnesses'), o.detail)


def check_affine_new_flat(ck, leaves, pfx):
    """AffineG1/AffineG2::new on the REAL parameters (flat F_q coordinates): curve equation with b = 5 resp. 5u;
    for G2 additionally: Ok exactly when the z-coordinate of (r-1)P + P - computed with the verified group
    operations - is decided zero"""
    n = 1 if pfx == 'g1' else 2
    src = 'src/groups.rs:AffineG::new'
    if n == 1:
        X, Y = tw(V('X1')), tw(V('Y1'))
        C = Y * Y - X * X * X - 5
    else:
        X, Y = t2('X1'), t2('Y1')
        C = Y * Y - X * X * X - U * 5
    comps = coords(C, n)
    kinds = set()
    for li, lf in enumerate(leaves):
        nm = 'A-%s_affine_new#%d' % (pfx, li)
        if lf.panic:
            ck.fail(nm, 'no panic leaf', lf.panic, [src])
            continue
        stmt = 'AffineG%d::new: Ok exactly when y^2 = x^3 + %s%s' % (n, '5' if n == 1 else '5u', '' if n == 1 else ' and z((r-1)P + P) = 0')
        # only the curve-equation decisions are turned into polynomials (the later ones sit on the 256-step chain)
        decs = [(k, lf.dag.p(a) - lf.dag.p(b), o) for k, a, b, o in lf.pc[:n]]
        outs = [lf.dag.p(i) for i in lf.out[:2 + 2 * n]]
        flag, kind = outs[0] == 1, outs[1] == 1
        on_curve = True
        bad = None
        for i in range(n):
            if i >= len(decs):
                bad = 'missing curve-equation decision'
                break
            if not unit_multiple(decs[i][1], comps[i]):
                bad = 'decision %d is not component %d of y^2 - x^3 - b: %r' % (i, i, decs[i][1])
                break
            if not decs[i][2]:
                on_curve = False
                break
        if bad:
            ck.fail(nm, stmt, bad, [src], replay=dict(kind='affine_new', pfx=pfx))
            continue
        if not on_curve:
            kinds.add('offcurve')
            (ck.ok if (not flag and not kind) else ck.fail)(nm, stmt, 'curve equation false -> %s' % ('Err(NotOnCurve)' if not flag and not kind else 'flag=%s kind=%s' % (flag, kind)), [src])
            continue
        if n == 1:
            kinds.add('ok')
            good = flag and (outs[2] - V('X1')).is_zero() and (outs[3] - V('Y1')).is_zero() and len(lf.pc) == 1
            (ck.ok if good else ck.fail)(nm, stmt, 'curve equation true -> Ok carrying (x, y): %s' % good, [src], **({} if good else {'replay': dict(kind='affine_new', pfx=pfx)}))
            continue
        refz = lf.out[6:8]
        zero_ids = set(d[2] if d[1] in refz else d[1] for d in lf.pc if d[0] == 'eq' and (d[1] in refz or d[2] in refz))
        zdec = [d for d in lf.pc if d[0] == 'eq' and (d[1] in refz or d[2] in refz)]
        if not zdec:
            ck.fail(nm, stmt, 'on-curve leaf without a decision on z((r-1)P + P): subgroup test missing', [src], replay=dict(kind='affine_new', pfx=pfx))
            continue
        zc = [lf.dag.n[z][1] == 'const' and int(lf.dag.n[z][2], 16) == 0 for z in zero_ids]
        in_sub = all(d[3] for d in zdec) and len(zdec) == 2
        if in_sub:
            kinds.add('ok')
            good = flag and all(zc) and (outs[2] - V('X10')).is_zero() and (outs[3] - V('X11')).is_zero() and (outs[4] - V('Y10')).is_zero() and (outs[5] - V('Y11')).is_zero()
        else:
            kinds.add('notinsub')
            good = (not flag) and kind and all(zc)
        (ck.ok if good else ck.fail)(nm, stmt, 'on curve, z((r-1)P+P)==0 decided %s -> flag=%s kind=%s' % ([d[3] for d in zdec], flag, kind), [src],
                                       **({} if good else {'replay': dict(kind='affine_new', pfx=pfx)}))
    need = {'offcurve', 'ok'} | ({'notinsub'} if n == 2 else set())
    if not need <= kinds:
        ck.fail('A-%s_affine_new-coverage' % pfx, 'all outcome classes explored', 'missing leaf classes: %s' % (need - kinds), [src], status='inconclusive')


def check_zero_one(ck, leaves, pfx):
    """identity is (0,1,0); generator on the curve; b; scalar of the subgroup test = r-1"""
    import algreplay
    n = 1 if pfx == 'g1' else 2
    lf = leaves[0]
    o = [p.t.get((), 0) if not p.vars() else None for p in lf.outs()]
    src = 'src/groups.rs:GroupParams'
    if any(v is None for v in o):
        return ck.fail('A-%s_zero_one' % pfx, 'constants', 'non-constant output', [src], status='inconclusive')
    zero = o[0:3 * n]
    gen = o[3 * n:6 * n]
    b = o[6 * n:7 * n]
    m1 = o[7 * n]
    F = algreplay.F1 if n == 1 else algreplay.F2
    mk = (lambda c: c[0]) if n == 1 else (lambda c: tuple(c))
    Z = [mk(zero[i * n:(i + 1) * n]) for i in range(3)]
    Gp = [mk(gen[i * n:(i + 1) * n]) for i in range(3)]
    okz = Z[2] == F.zero
    G = (algreplay.G1X, algreplay.G1Y) if n == 1 else (algreplay.G2X, algreplay.G2Y)
    okg = (Gp[0], Gp[1]) == G and Gp[2] == F.one
    wantb = 5 if n == 1 else (0, 5)
    okb = mk(b) == wantb
    okm = m1 == RORD - 1
    # generator on the curve and of order r (exact integer arithmetic with the affine reference)
    y2 = F.mul(G[1], G[1])
    x3b = F.add(F.mul(F.mul(G[0], G[0]), G[0]), wantb)
    okc = y2 == x3b
    okr = algreplay.aff_mul(F, G, RORD) is None
    good = okz and okg and okb and okm and okc and okr
    (ck.ok if good else ck.fail)('A-%s_zero_one' % pfx, 'zero() has z = 0; one() is the standard generator (on the curve, r*G = O by the affine reference); b = %s; subgroup-test scalar = r-1' % ('5' if n == 1 else '5u'),
                                 'zero z=0:%s generator:%s b:%s scalar r-1:%s on curve:%s order r:%s' % (okz, okg, okb, okm, okc, okr), [src])


def check_normalize(ck, by, pfx):
    """Group::normalize (lib.rs): identity values stay identity; otherwise (X/Z^2, Y/Z^3, 1)"""
    n = 1 if pfx == 'g1' else 2
    nmP = 'P' if pfx == 'g1' else 'Q'
    for m in 'joa':
        for li, lf in enumerate(by.get('wrap_%s_normalize_%s' % (pfx, m), [])):
            nm = 'A-%s_normalize_%s#%d' % (pfx, m, li)
            src = 'src/lib.rs:Group::normalize'
            if lf.panic:
                ck.fail(nm, 'no panic leaf', lf.panic, [src])
                continue
            outs = lf.outs()
            if n == 1:
                X, Y = tw(V('X' + nmP)), tw(V('Y' + nmP))
                Z = {'a': tw(1), 'o': tw(0)}.get(m) or tw(V('Z' + nmP))
                R = [tw(o) for o in outs[0:3]]
            else:
                X, Y = t2('X' + nmP), t2('Y' + nmP)
                Z = {'a': tw(1), 'o': tw(0)}.get(m) or t2('Z' + nmP)
                R = [from_fq2(outs[0:2]), from_fq2(outs[2:4]), from_fq2(outs[4:6])]
            # variable-level decisions (z components against 0 / 1) become substitutions
            decs = lf.decisions()
            zvars = set(Z.c[0].vars() | Z.c[6].vars())
            lin = [d for d in decs if d[0] == 'eq' and d[2] and d[1].degree() == 1 and len(d[1].vars()) == 1 and d[1].vars() <= zvars]
            sub = solve_subst(lin)
            # a leaf on which the norm z0^2 + 2 z1^2 is decided zero although z != 0 is infeasible (-2 is a non-residue)
            if n == 2 and m == 'j':
                nz_ = (Z * Z.conj(6)).c[0]
                if any(d[0] == 'eq' and d[2] and unit_multiple(d[1], nz_) for d in decs):
                    ck.ok(nm, 'normalize: leaf infeasible', 'norm(z) = 0 decided on a path with z != 0: infeasible because -2 is a quadratic non-residue mod q', [src])
                    continue
            Zs = Z.map(lambda p: apply_sub(p, sub))
            Rs = [r.map(lambda p: apply_sub(p, sub)) for r in R]
            if Zs.is_zero():
                ck.identity(nm, 'normalize leaves an identity value an identity (any x, y)', lf, list(Rs[2].c), [src], replay=dict(kind='group', op='toaffine', modes=m, case='independent'))
            else:
                d = list((Rs[2] - 1).c) + list((Rs[0] * Zs * Zs - X).c) + list((Rs[1] * Zs * Zs * Zs - Y).c)
                ck.identity(nm, 'normalize yields (X/Z^2, Y/Z^3, 1): same point, z = 1', lf, d, [src], replay=dict(kind='group', op='toaffine', modes=m, case='independent'))


def run_parts(pid, parts, seed=0, thorough=False):
    """run the requested engine-A obligation groups; returns Checker (obligations finalized: replayed)"""
    import alg
    ck = Checker(pid, seed)
    exe, msg = alg.overlay_exe()
    if not exe:
        ck.fail('A-overlay', 'overlay build', msg, status='inconclusive')
        return ck
    cache = {}

    def leaves(fam, only=''):
        k = (fam, only)
        if k not in cache:
            ls = [Leaf(d) for d in alg.run_task(exe, fam, only) if 'truncated' not in d]
            by = {}
            for l in ls:
                by.setdefault(l.task, []).append(l)
            cache[k] = by
        return cache[k]
    for part in parts:
        if part in ('fq2', 'fq4'):
            by = leaves(part)
            check_tower(ck, by, part)
            n = int(part[2])
            check_inverse(ck, by.get(part + '_inv', []), n, part + '_inv', 'src/fields/%s.rs:inverse' % part)
        elif part == 'fq12':
            by = {}
            for t in tower_specs()['fq12']:
                by.update(leaves('fq12', t))
            check_tower(ck, by, 'fq12')
        elif part == 'fq12_gt':
            by = {}
            names = ['fq12_mul', 'fq12_one_zero', 'fq12_pow_0', 'fq12_pow_1', 'fq12_pow_2', 'fq12_pow_3']
            for t in names:
                by.update(leaves('fq12', t))
            check_tower(ck, by, 'fq12', names=set(names))
        elif part == 'fq12_inv':
            by = leaves('fq12', 'fq12_inv')
            lv = by.get('fq12_inv', [])
            check_inverse(ck, [l for l in lv if thorough or (l.out and l.outs()[0] == 1)], 12, 'fq12_inv', 'src/fields/fq12.rs:inverse')
        elif part.startswith('gabs'):
            by = leaves('gabs')
            g = Checker(pid, seed)
            GroupCheck(g, 'gabs').run(by)
            keep = {'gabs_law': ('_add_', '_sub_', '_addassign', '_double_', '_neg_'), 'gabs_eq': ('_eq_', '_toaffine_', '_iszero_'),
                    'gabs_toaffine': ('_toaffine_',), 'gabs_new': ('_affine_new',), 'gabs_all': ('',)}[part]
            ck.obls += [o for o in g.obls if any(k in o.name for k in keep)]
        elif part == 'affine_new':
            for pfx in ('g1', 'g2'):
                check_affine_new_flat(ck, leaves(pfx, pfx + '_affine_new').get(pfx + '_affine_new', []), pfx)
        elif part == 'consts':
            for pfx in ('g1', 'g2'):
                check_zero_one(ck, leaves(pfx, pfx + '_zero_one').get(pfx + '_zero_one', []), pfx)
        elif part == 'exponents':
            check_exponents(ck)
        elif part == 'sqrt':
            by = {}
            for t in ('fq2_sqrt', 'fq2_sqrt_of_square', 'fq2_sqrt_of_real', 'fq2_sqrt_of_imag'):
                by.update(leaves('fq2', t))
            check_sqrt(ck, by)
        elif part == 'wrappers':
            by = {}
            for e in ('pairing', 'fast', 'prepared'):
                by.update(leaves('wrap', 'wrap_%s_*' % e))
            check_wrappers(ck, by)
        elif part == 'normalize':
            by = leaves('wrap', 'wrap_g*')
            for pfx in ('g1', 'g2'):
                check_normalize(ck, by, pfx)
        else:
            ck.fail('A-' + part, 'known part', 'unknown part', status='inconclusive')
    finalize(ck, pid)
    return ck


def check_wrappers(ck, by):
    """C03: the three pairing entry points see a point only through its affine coordinates (to_affine outputs,
    verified under C15); an identity argument (z = 0, any x, y) gives the constant one; two uses of one prepared
    value give the identical result"""
    src = 'src/lib.rs + src/pairings.rs'
    for entry in ('pairing', 'fast', 'prepared'):
        for m in ('jj', 'oj', 'jo', 'aa', 'ja', 'aj'):
            task = 'wrap_%s_%s' % (entry, m)
            for lf in by.get(task, []):
                nm = 'A-' + task
                fn = {'pairing': 'pairing()', 'fast': 'fast_pairing()', 'prepared': 'G2Prepared::from + pairing'}[entry]
                rp = dict(kind='wrap', entry=entry, modes=m)
                if lf.panic:
                    ck.fail(nm, fn + ': no panic', 'panic: ' + lf.panic, [src], replay=rp)
                    continue
                out = lf.out
                res, res2, aff = out[0:12], out[12:24], out[24:]
                dag = lf.dag
                if res != res2:
                    ck.fail(nm + '-reuse', fn + ': a prepared value gives the same result on every use', 'two calls produced different result expressions', [src], replay=rp)
                ident = 'o' in m
                if ident:
                    const = all(dag.n[i][1] == 'const' for i in res)
                    vals = [int(dag.n[i][2], 16) if dag.n[i][1] == 'const' else None for i in res]
                    if const and vals == [1] + [0] * 11:
                        ck.ok(nm, fn + ': identity argument (z = 0, arbitrary x, y) gives one', 'result is the constant one', [src])
                    else:
                        dep = sorted(set(dag.n[i][2] for i in dag.reach(res) if dag.n[i][1] == 'var'))
                        ck.fail(nm, fn + ': identity argument (z = 0, arbitrary x, y) gives one', 'result is not the constant one; it depends on %s' % dep[:8], [src], replay=rp)
                    continue
                cut = set(aff)
                reach = dag.reach(res, stop=cut)
                raw = sorted(set(dag.n[i][2] for i in reach if dag.n[i][1] == 'var'))
                if raw:
                    ck.fail(nm, fn + ': result depends on P, Q only through their affine coordinates', 'result expression reaches raw Jacobian coordinates %s without passing through to_affine' % raw[:8], [src], replay=rp)
                else:
                    ck.ok(nm, fn + ': result depends on P, Q only through their affine coordinates', 'dependency analysis of the %d-node result DAG: every path to %s passes through the to_affine outputs' % (len(dag.n), 'X,Y,Z'), [src])


# ------------------------------------------------------------------------------------------ C14: Fq2::sqrt
def legendre(k):
    k %= Q
    if k == 0:
        return 0
    return 1 if pow(k, (Q - 1) // 2, Q) == 1 else -1


def nsqrt(k):
    """numeric square root mod q (q = 5 mod 8), None if k is a non-residue"""
    k %= Q
    if k == 0:
        return 0
    if legendre(k) != 1:
        return None
    r = pow(k, (Q + 3) // 8, Q)
    if r * r % Q != k:
        r = r * pow(2, (Q - 1) // 4, Q) % Q
    return r if r * r % Q == k else None


def decomp(p, atoms, maxe=4):
    """p == k * prod atoms^e ?  -> (k, exps) or None"""
    import itertools
    if p.is_zero():
        return (0, None)
    if p.degree() == 0:
        return (p.t[()], [0] * len(atoms))
    for es in itertools.product(range(maxe + 1), repeat=len(atoms)):
        if sum(e * a.degree() for e, a in zip(es, atoms)) != p.degree():
            continue
        t = Poly.const(1)
        for a, e in zip(atoms, es):
            for _ in range(e):
                t = t * a
        if unit_multiple(p, t):
            m0 = next(iter(t.t))
            return (p.t[m0] * pow(t.t[m0], -1, Q) % Q, list(es))
    return None


def sqrt_leaf_feasible(lf, atoms, chis_list, presubs=(None,)):
    """presubs: parametrisations of the family variable by its square root (a = t^2, a = g t^2 with g a fixed
    non-residue) so that roots of odd powers become expressible"""
    last = (False, 'no assignment of characters / root signs satisfies the path condition')
    for ps in presubs:
        r = _sqrt_leaf_feasible(lf, atoms, chis_list, ps)
        if r[0]:
            return r[0], r[1] + (' [%s]' % ', '.join('%s = %r' % kv for kv in ps.items()) if ps else '')
        if r[0] is None:
            last = r
    return last


def _sqrt_leaf_feasible(lf, atoms, chis_list, presub):
    """is the leaf's path condition satisfiable for generic non-zero atoms with some assignment of quadratic
    characters and some choice of the roots returned by Fq::sqrt?  Returns (feasible?, explanation)"""
    import itertools
    dag = lf.dag
    # witnesses in creation order
    outs = lf.outs() if lf.out else []
    decs = lf.pc
    for chis in chis_list:
        chi_of = dict(zip(range(len(atoms)), chis))
        sqrt_nodes = [f for f in dag.facts if f[0] == 'sqrt']
        # need the facts discovered: make sure all decision polys are computed first
        for kind, a, b, o in decs:
            dag.p(a), dag.p(b)
        sqrt_nodes = [f for f in dag.facts if f[0] == 'sqrt']
        for signs in itertools.product((1, -1), repeat=len(sqrt_nodes)):
            sub = {}
            ok = True
            why = ''
            if presub:
                sub.update(presub)
            for (kind_, name, arg, _), sg in zip(sqrt_nodes, signs):
                argp = apply_sub(arg, sub)
                d = decomp(argp, atoms)
                if d is None or d[0] == 0:
                    ok = False
                    why = 'sqrt witness of a non-monomial quantity'
                    break
                k, es = d
                # character of arg = chi(k) * prod chi(atom)^e ; must be +1 for a witness to exist
                ch = legendre(k)
                for i, e in enumerate(es):
                    if e % 2:
                        ch *= chi_of[i]
                if ch != 1:
                    ok = False
                    why = 'witness of a non-square'
                    break
                # root = sg * sqrt(k * prod_{odd} g) * prod atoms^(e//2) * (prod_{odd} atom * g^-1 ...): only handle all-even exponents
                if any(e % 2 for e in es):
                    ok = False
                    why = 'root of an odd power of an atom (not expressible)'
                    break
                r = Poly.const(nsqrt(k) * sg)
                for a_, e in zip(atoms, es):
                    for _ in range(e // 2):
                        r = r * a_
                sub[name] = r
            if not ok:
                continue
            # inverse witnesses: 1/(k * prod atoms^e) is not polynomial: clear by treating inv#i as formal and checking decisions that mention it through cross-multiplication
            good = True
            for kind, a, b, o in decs:
                pa, pb = apply_sub(dag.p(a), sub), apply_sub(dag.p(b), sub)
                if kind == 'eq':
                    diff = pa - pb
                    for red in reduce_facts(diff, [f for f in dag.facts if f[0] == 'inv'], sub):
                        pass
                    reds = reduce_facts(diff, [f for f in dag.facts if f[0] == 'inv'], sub)
                    zero = all(r.is_zero() for r in reds)
                    if zero != o:
                        good = False
                        break
                else:
                    d = decomp(pa, atoms)
                    if d is None:
                        good = None
                        break
                    k, es = d
                    if k == 0:
                        good = False
                        break
                    ch = legendre(k)
                    for i, e in enumerate(es):
                        if e % 2:
                            ch *= chi_of[i]
                    if (ch == 1) != o:
                        good = False
                        break
            if good:
                return True, 'characters %s, root signs %s' % (chis, signs)
            if good is None:
                return None, 'a residuosity decision could not be resolved'
    return False, 'no assignment of characters / root signs satisfies the path condition'


def check_sqrt(ck, by):
    src = 'src/fields/fq2.rs:sqrt'
    # ---- soundness, all leaves of the general task: Some(s) => s^2 = x (enforced by a decision on the leaf)
    for li, lf in enumerate(by.get('fq2_sqrt', [])):
        nm = 'A-fq2_sqrt-sound#%d' % li
        if lf.panic:
            ck.fail(nm, 'Fq2::sqrt never panics', lf.panic, [src], replay=dict(kind='sqrt', family='general'))
            continue
        outs = lf.outs()
        if outs[0] != 1:
            continue
        S = from_fq2(outs[1:3])
        X = t2('x')
        D = coords(S * S - X, 2)
        trues = [d[1] for d in lf.decisions() if d[0] == 'eq' and d[2]]
        zero_leaf = all(o.is_zero() for o in outs[1:3])
        okc = []
        for dcomp in D:
            okc.append(dcomp.is_zero() or any(unit_multiple(dcomp, t) for t in trues) or
                       all(r.is_zero() for r in reduce_facts(apply_sub(dcomp, solve_subst(lf.decisions())), lf.dag.facts, solve_subst(lf.decisions()))))
        (ck.ok if all(okc) else ck.fail)(nm, 'Fq2::sqrt: Some(s) only with s*s = x', 'the equality s^2 = x is decided true on this leaf: %s' % okc, [src])
    # ---- completeness on stratified families
    fams = [
        ('fq2_sqrt_of_square', [V('c0'), V('c1'), V('c0') * V('c0') + V('c1') * V('c1') * 2], [(1, 1, 1), (1, -1, 1), (-1, 1, 1), (-1, -1, 1), (1, 1, -1), (1, -1, -1), (-1, 1, -1), (-1, -1, -1)], True, 'x = (c0 + c1 u)^2 with c0, c1 generic non-zero'),
        ('fq2_sqrt_of_real', [V('t')], [(1,)], True, 'x = a real, a any non-zero element of F_q (residue a = t^2 or non-residue a = 2 t^2, either root returned by Fq::sqrt)'),
        ('fq2_sqrt_of_imag', [V('t')], [(1,)], False, 'x = b u purely imaginary, b != 0 (norm 2 b^2 is a non-residue: never a square)'),
    ]
    t2_ = V('t') * V('t')
    PRES = {'fq2_sqrt_of_real': [{'a': t2_}, {'a': t2_ * 2}], 'fq2_sqrt_of_imag': [{'b': t2_}, {'b': t2_ * 2}], 'fq2_sqrt_of_square': [None]}
    assert legendre(2) == -1
    for task, atoms, chis, expect_some, desc in fams:
        seen_feasible = 0
        for li, lf in enumerate(by.get(task, [])):
            nm = 'A-%s#%d' % (task, li)
            if lf.panic:
                ck.fail(nm, 'no panic', lf.panic, [src], replay=dict(kind='sqrt', family=task))
                continue
            outs = lf.outs()
            some = outs[0] == 1
            # generic stratum only: a leaf that needs an atom to vanish belongs to another family
            special = False
            fam_atoms = atoms if task == 'fq2_sqrt_of_square' else [V('a' if task == 'fq2_sqrt_of_real' else 'b')]
            for kind, p, o in lf.decisions():
                if kind == 'eq' and o and not p.is_zero():
                    d = decomp(p, fam_atoms) if not (p.vars() & set(v for f in lf.dag.facts for v in [f[1]])) else None
                    if d is not None and d[0] != 0:
                        special = True
            if special:
                ck.ok(nm, 'Fq2::sqrt on %s' % desc, 'leaf requires an atom to vanish: outside the generic stratum (covered by the other families)', [src])
                continue
            feas, why = sqrt_leaf_feasible(lf, atoms, chis, PRES[task])
            stmt = 'Fq2::sqrt is %s on %s' % ('complete (never None)' if expect_some else 'None', desc)
            if feas is None:
                ck.fail(nm, stmt, 'leaf feasibility unresolved: ' + why, [src], status='inconclusive')
            elif not feas:
                ck.ok(nm, stmt, 'leaf infeasible: ' + why, [src])
            else:
                seen_feasible += 1
                if some == expect_some:
                    ck.ok(nm, stmt, 'feasible leaf (%s) returns %s' % (why, 'Some' if some else 'None'), [src])
                else:
                    ck.fail(nm, stmt, 'feasible leaf (%s) returns %s' % (why, 'Some' if some else 'None'), [src], replay=dict(kind='sqrt', family=task))
        if not seen_feasible:
            ck.fail('A-%s-coverage' % task, 'at least one feasible leaf', 'no feasible leaf found', [src], status='inconclusive')


# ------------------------------------------------------------------------------------------ variant E: exponents
def check_exponents(ck):
    """overlay variant E: the real Fq12::pow(u128), both final exponentiations and the generic pow (concrete
    scalars), run on x = Base(0) over the exponent-tracking stand-in; every result is x^e with e folded exactly"""
    import alg, subprocess, z3
    src = 'src/pairings.rs'
    exe, msg = alg.overlay_exe('E')
    if not exe:
        return ck.fail('A-E-overlay', 'overlay variant E builds', msg, [src], status='inconclusive')
    p = subprocess.run([exe], capture_output=True, text=True, timeout=600)
    try:
        d = json.loads(p.stdout.strip().splitlines()[-1])
    except Exception:
        return ck.fail('A-E-run', 'variant E driver runs', 'no output: ' + p.stderr[-300:], [src], status='inconclusive')
    N = Q ** 12 - 1
    nodes = {n[0]: n for n in d['dag']}
    ex = {}
    for i in sorted(nodes):
        n = nodes[i]
        k = n[1]
        if k == 'base':
            ex[i] = 1
        elif k == 'one':
            ex[i] = 0
        elif k == 'mul':
            ex[i] = ex[n[2]] + ex[n[3]]
        elif k == 'sq':
            ex[i] = 2 * ex[n[2]]
        elif k == 'inv':
            ex[i] = -ex[n[2]]
        elif k == 'frob':
            ex[i] = ex[n[3]] * Q ** n[2]
    outs = dict((a, b) for a, b in d['outs'])
    c = {k: int(v) for k, v in d['consts'].items()}
    full = (Q ** 12 - 1) // RORD
    assert (Q ** 12 - 1) % RORD == 0
    first = (Q ** 6 - 1) * (Q ** 2 + 1)
    specs = [('pow_A2', c['A2'], False), ('pow_A3', c['A3'], False), ('pow_S', c['S'], False), ('pow_NINE', c['NINE'], False), ('pow_0', 0, False), ('pow_1', 1, False), ('pow_2', 2, False),
             ('pow_6', 6, False), ('pow_1000003', 1000003, False), ('first_chunk', first, True), ('final_exponentiation', full, True), ('final_exp', full, True),
             ('gtpow_0', 0, False), ('gtpow_1', 1, False), ('gtpow_2', 2, False), ('gtpow_5', 5, False), ('gtpow_18446744073709551616', 1 << 64, False),
             ('gtpow_340282366920938463463374607431768211461', (1 << 128) + 5, False)]
    for name, want, modN in specs:
        nm = 'A-E-' + name
        if name not in outs:
            ck.fail(nm, 'chain present', 'missing output', [src], status='inconclusive')
            continue
        got = ex[outs[name]]
        s = z3.Solver()
        t = z3.Int('t')
        diff = (got - want)
        # the two exponents agree on every element x = g^t of the cyclic group F_q12^* iff they agree mod q^12 - 1
        s.add((z3.IntVal(diff) * t) % (N if modN else 0 or N) != 0) if modN else s.add(z3.IntVal(got) != z3.IntVal(want))
        r = s.check()
        stmt = {'first_chunk': 'easy part of both final exponentiations: x -> x^((q^6-1)(q^2+1))',
                'final_exponentiation': 'final_exponentiation: x -> x^((q^12-1)/r) for every non-zero x (exponent folded through the real chain, SM9_A2/A3/NINE)',
                'final_exp': 'final_exp (fast variant): x -> x^((q^12-1)/r) for every non-zero x (real chain over SM9_S)'}.get(name, 'the real exponentiation loop computes x^%s' % (name.split('_', 1)[1]))
        if r == z3.unsat:
            ck.ok(nm, stmt, 'exponent of the real chain %s the specification (z3: unsat)' % ('is congruent mod q^12-1 to' if modN else 'equals'), [src])
        else:
            ck.fail(nm, stmt, 'exponent mismatch: chain computes x^e with e - spec = %d (mod q^12-1: %d)' % (diff if abs(diff) < 10 ** 30 else 0, diff % N), [src], replay=(dict(kind='pow', k=want) if name.startswith('gtpow') else dict(kind='finalexp', name=name)))
    # the last chunks agree with each other on the cyclotomic subgroup and the loop constants are consistent
    tS = c['S']
    okq = 36 * tS ** 4 + 36 * tS ** 3 + 24 * tS ** 2 + 6 * tS + 1 == Q
    okn = c['LOOP_N'] == 6 * tS + 2
    n = 1
    for dgt in d['loop_count']:
        n = 2 * n + {0: 0, 1: 1, 2: -1}[dgt]
    okl = n == c['LOOP_N']
    (ck.ok if okq and okn and okl else ck.fail)('A-E-constants', 'loop constants: q = 36t^4+36t^3+24t^2+6t+1 with t = SM9_S; SM9_LOOP_N = 6t+2; the signed-digit table SM9_LOOP_COUNT spells 6t+2',
                                                'q(t): %s, LOOP_N = 6t+2: %s, digit table: %s' % (okq, okn, okl), [src])
