"""Engine L driver: release LLVM IR of the current tree -> kernel obligations (llir/), one process per kernel."""
import os, sys, json, glob, shutil, subprocess, time
from concurrent.futures import ThreadPoolExecutor
from common import *
import kani

LDIR = os.path.join(VERIF, 'llir')


def build_ir():
    th = tree_hash()
    out = os.path.join(workdir('ir'), 'sm9_core-%s.ll' % th)
    if os.path.exists(out):
        return out, 'cached'
    with Lock('ir-build'):
        if os.path.exists(out):
            return out, 'cached'
        tdir = os.path.join(WORK, 'ir', 'target')
        log = os.path.join(workdir('logs'), 'ir-build.log')
        # a per-tree target dir: cargo regenerates the .ll whenever the sources differ from the last build there
        rc, secs = run(['cargo', 'rustc', '--release', '--lib', '--offline', '--target-dir', tdir, '--', '--emit=llvm-ir', '-C', 'codegen-units=1'],
                       log, timeout=1800, cwd=REPO)
        if rc == 0 and not glob.glob(os.path.join(tdir, 'release', 'deps', 'sm9_core-*.ll')):
            # fresh fingerprint but the artefact is gone: force the crate to be rebuilt
            shutil.rmtree(os.path.join(tdir, 'release', '.fingerprint'), ignore_errors=True)
            rc, secs = run(['cargo', 'rustc', '--release', '--lib', '--offline', '--target-dir', tdir, '--', '--emit=llvm-ir', '-C', 'codegen-units=1'],
                           log, timeout=1800, cwd=REPO)
        lls = sorted(glob.glob(os.path.join(tdir, 'release', 'deps', 'sm9_core-*.ll')), key=os.path.getmtime, reverse=True)
        if rc != 0 or not lls:
            return None, 'release IR build failed, see ' + log
        shutil.copy(lls[0], out)
        return out, 'built in %.0fs' % secs


def decide(pid, names, tier, pool=6):
    ll, msg = build_ir()
    obls = []
    if not ll:
        o = Obl('L-ir', 'L', 'release LLVM IR of the crate', [], '', [])
        o.status, o.detail = 'inconclusive', msg
        return [o]
    exe = kani.build_replay('release')
    if tier == 'quick':
        import common as _c
        for n_ in names:
            if n_ in ('L-sq-q', 'L-sq-r'):
                _c.QUICK_SKIPPED.append('L %s (U256::square: ~20 min of z3)' % n_)
            if n_ == 'L-sop4':
                _c.QUICK_SKIPPED.append('L L-sop4 (sum_of_products::<4>, 120 paths: ~10 min of z3; the same generic code is decided for N = 2 by L-sop2 under C12)')
        names = [n_ for n_ in names if n_ not in ('L-sq-q', 'L-sq-r', 'L-sop4')]
    # longer solver budgets only on request: with them the undecided U256::square value goal costs more than an hour
    # before it is withdrawn again (measured), which helps nobody in a registered command
    budgets = '20000,600000' if (tier != 'quick' and os.environ.get('VERIF_L_LONG')) else '10000,120000'
    lh = dir_hash(LDIR)
    th = tree_hash()

    stop = {'flag': False}
    procs = []

    def one(name):
        key = 'L|%s|%s|%s|%s' % (th, lh, name, budgets)
        c = cache_get(key)
        if not c and tier != 'quick':
            # a goal proved with the short solver budgets stays proved: the thorough tier only extends budgets for
            # goals that are still open
            c = cache_get('L|%s|%s|%s|%s' % (th, lh, name, '10000,120000'))
            if c and not all(d['status'] == 'proved' for d in c):
                c = None
        if c:
            for d in c:
                d['cached'] = True
            return c
        log = os.path.join(workdir('logs'), 'L-%s-%d.log' % (name, os.getpid()))
        t0 = time.time()
        if stop['flag']:
            return [dict(name=name, statement='', functions=[], status='inconclusive', detail='not run: another obligation of this check was already violated (natively replayed)', seconds=0, queries=0, vacuity=None, canary=None)]
        try:
            pr = subprocess.Popen(['python3-vt', os.path.join(LDIR, 'run_spec.py'), ll, REPO, exe or '', name, str(SEED), budgets],
                                  stdout=subprocess.PIPE, stderr=subprocess.PIPE, text=True)
            procs.append(pr)
            try:
                so, se = pr.communicate(timeout=3600 if tier == 'quick' else 4 * 3600)
            except subprocess.TimeoutExpired:
                pr.kill()
                pr.communicate()
                raise
            open(log, 'w').write(so + se)
            if stop['flag'] and pr.returncode != 0:
                return [dict(name=name, statement='', functions=[], status='inconclusive', detail='stopped: another obligation of this check was already violated (natively replayed)', seconds=time.time() - t0, queries=0, vacuity=None, canary=None)]
            for ln in so.splitlines():
                if ln.startswith('RESULT-JSON '):
                    res = json.loads(ln[12:])
                    if any(r['status'] == 'violated' for r in res):
                        # a natively replayed violation decides the check: stop the obligations still running
                        stop['flag'] = True
                        for q_ in procs:
                            if q_ is not pr and q_.poll() is None:
                                try:
                                    q_.kill()
                                except Exception:
                                    pass
                    # cached: complete proofs; and the one outcome that is withdrawn from the claim anyway - the
                    # U256::square value goal left UNDECIDED (never refuted) by the same budgets on the same tree and
                    # engine sources - so that C06 and C07 do not both spend 20 minutes rediscovering it
                    def _ok(r):
                        return r['status'] == 'proved' or (r['name'] in ('L-sq-q-value', 'L-sq-r-value') and r['status'] == 'inconclusive'
                                                           and 'refuted' not in r['detail'] and 'value goal: sat' not in r['detail'])
                    if all(_ok(r) for r in res):
                        cache_put(key, res)
                    return res
            return [dict(name=name, statement='', functions=[], status='inconclusive', detail='engine L crashed, see ' + log, seconds=time.time() - t0, queries=0, vacuity=None, canary=None)]
        except subprocess.TimeoutExpired:
            return [dict(name=name, statement='', functions=[], status='inconclusive', detail='engine L timeout', seconds=time.time() - t0, queries=0, vacuity=None, canary=None)]
    with ThreadPoolExecutor(max_workers=pool) as ex:
        for res in ex.map(one, names):
            for d in res:
                o = Obl(d['name'], 'L', d['statement'], d['functions'], 'all operands below the modulus (mul/square/sum_of_products/linear), all 256-bit values (encode); no loop bound beyond those derived and asserted in the IR',
                        ['64x64-bit products left uninterpreted: M(x,y) with its range, interpreted as integer multiplication (limb distributivity); sum_ij M(a_i,b_j) W^(i+j) <= (p-1)^2',
                         'lazy_static cells hold the literals of the current source and are initialised (spin::Once COMPLETE)', 'Intel ADC/SBB intrinsics = add/subtract with carry'])
                o.status, o.detail, o.seconds, o.queries, o.vacuity, o.canary = d['status'], d['detail'], d['seconds'], d['queries'], d['vacuity'], d['canary']
                o.cached = d.get('cached', False)
                # U256::square functional value: the LIA query of some paths does not finish within the budget on this
                # encoding (DESIGN.md 3, L-sq); when it is UNDECIDED (never when refuted) the obligation is withdrawn
                # from the claim and reported as not covered instead of failing the check
                if d['name'] in ('L-sq-q-value', 'L-sq-r-value') and d['status'] == 'inconclusive' and 'refuted' not in d['detail'] and 'value goal: sat' not in d['detail']:
                    BUDGET_NOT_MET.append(d['name'] + ': ' + d['detail'][:160])
                    continue
                if d['status'] == 'violated':
                    o.witness = write_replay(pid, d['name'], dict(property=pid, engine='L', obligation=d['name'], kernel=d.get('witness', {}).get('op'), witness=d.get('witness'),
                                                                  how_to_replay='./check %s --replay <this file>' % pid))
                obls.append(o)
    return obls


BUDGET_NOT_MET = []
MUL = ['L-const', 'L-mul-q', 'L-mul-r', 'L-sq-q', 'L-sq-r', 'L-dec-q', 'L-dec-r', 'L-enc-q', 'L-enc-r']
LIN = ['L-lin-add-q', 'L-lin-sub-q', 'L-lin-neg-q', 'L-lin-double-q', 'L-lin-div2-q', 'L-lin-add-r', 'L-lin-sub-r', 'L-lin-neg-r', 'L-lin-double-r']
SOP = ['L-sop2', 'L-sop4']
DIV = ['L-divrem-q', 'L-divrem-r', 'L-divrem-r-1']


SK_STMT = {
    'g1': 'release IR of <G<P> as Mul<Fr>>::mul (G1): with double -> 2c and add -> c1+c2 on an integer coefficient, the returned coefficient equals the canonical scalar k',
    'g2': 'release IR of <G<P> as Mul<Fr>>::mul (G2): with double -> 2c and add -> c1+c2 on an integer coefficient, the returned coefficient equals the canonical scalar k',
    'fq': 'release IR of FieldElement::pow for Fq: with squared -> 2e and *= base -> e+1 on an integer exponent, the result is base^k for the canonical exponent k',
    'fr': 'release IR of FieldElement::pow for Fr: with squared -> 2e and *= base -> e+1 on an integer exponent, the result is base^k for the canonical exponent k',
    'fq12': 'release IR of FieldElement::pow for Fq12 (Gt::pow): with squared -> 2e and mul -> e1+e2 on an integer exponent, the result is base^k for the canonical exponent k',
}


def skeleton(pid, tier, whiches=('g1', 'g2')):
    """cut-point verification of the bit-driven loops (G * Fr, pow) on the release IR"""
    ll, msg = build_ir()
    obls = []
    if not ll:
        o = Obl('L-skel', 'L', 'release LLVM IR', [], '', [])
        o.status, o.detail = 'inconclusive', msg
        return [o]
    lh, th = dir_hash(LDIR), tree_hash()
    for which in whiches:
        for mode in ('proof', 'canary'):
            name = 'L-%s-%s%s' % ('smul' if which in ('g1', 'g2') else 'pow', which, '' if mode == 'proof' else '-canary')
            stmt = SK_STMT[which] + ' for EVERY 256-bit k below the modulus (zero, leading-zero skipping, every bit pattern); cut points at every loop header, inductive invariant found Houdini-style'
            if mode == 'canary':
                stmt = 'vacuity witness: the same skeleton with a WRONG abstraction (doubling/squaring step -> 2c+1) must NOT be provable'
            o = Obl(name, 'L', stmt, [], 'all k in [0, r); bit counter enumerated 256..0 at every cut point', ['double / add are the group law on every representative (C04)', 'U256::from(Fr) is the canonical scalar (L-dec-r)'])
            key = 'S|%s|%s|%s' % (th, lh, name)
            c = cache_get(key)
            if c:
                res = c
                o.cached = True
            else:
                t0 = time.time()
                try:
                    p = subprocess.run(['python3-vt', os.path.join(LDIR, 'skeleton.py'), ll, REPO, which] + (['canary'] if mode == 'canary' else []),
                                       capture_output=True, text=True, timeout=3000)
                    res = None
                    for ln in p.stdout.splitlines():
                        if ln.startswith('RESULT-JSON '):
                            res = json.loads(ln[12:])
                    if res is None:
                        res = dict(status='inconclusive', detail='skeleton engine crashed: ' + (p.stderr[-300:]), queries=0, seconds=time.time() - t0)
                except subprocess.TimeoutExpired:
                    res = dict(status='inconclusive', detail='timeout', queries=0, seconds=time.time() - t0)
            o.seconds, o.queries = res.get('seconds', 0), res.get('queries', 0)
            o.functions = [res.get('function', '')]
            if mode == 'proof':
                o.status = 'proved' if res['status'] == 'proved' else 'inconclusive'
                o.detail = res['detail']
                o.skel = res
                o.vacuity = 'see canary obligation'
            else:
                o.status = 'proved' if res['status'] != 'proved' else 'inconclusive'
                o.detail = ('wrong abstraction refuted as expected: ' if o.status == 'proved' else 'CANARY PROVABLE - vacuous encoding: ') + res['detail'][:300]
            if o.status == 'proved' and not o.cached:
                cache_put(key, res)
            obls.append(o)
    return obls
