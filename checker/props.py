"""Property -> obligations. Each property lists what decides it (DESIGN.md section 5)."""
import json, os, sys
from common import *
import kani

INTR = 'Intel ADC/SBB intrinsics (ark-ff asm feature) modelled by the u128 formula ark-ff uses without the feature'
CONTRACT = ('U256::mul / U256::square / Fq::sum_of_products / U256::invert replaced inside Kani by "returns an arbitrary '
            'value below the modulus" (over-approximation justified by engine L canonicity obligations)')
KTRUST = ['rustc + Kani 0.68 MIR->goto translation, CBMC 6.11 + CaDiCaL', INTR]


def K(harness, statement, functions, bounds='all 2^256-bit limb vectors below p; unwind 6 (limb loops)', assumptions=None):
    return dict(harness=harness, statement=statement, functions=functions, bounds=bounds,
                assumptions=[INTR] + (assumptions or []))


def k_lin_specs():
    S = []
    for f, ty in (('fq', 'Fq'), ('fr', 'Fr')):
        S.append(K('lin::k_lin_%s_add' % f, 'all six operator forms of %s addition on stored limbs a,b<p equal (a+b) mod p computed by an independent 5-limb reference; result <p' % ty,
                   ['sm9_core::%s as Add/AddAssign (4+2 forms)' % ty, 'fields::%s::add_inplace' % ty, 'U256::add', 'U256::subtract_modulus_with_carry', 'ark_ff BigInt::add_with_carry/sub_with_borrow']))
        S.append(K('lin::k_lin_%s_sub' % f, 'all six operator forms of %s subtraction equal (a-b) mod p; result <p' % ty,
                   ['sm9_core::%s as Sub/SubAssign' % ty, 'U256::sub']))
        S.append(K('lin::k_lin_%s_neg' % f, '%s: -a and -&a equal (p-a) mod p; is_zero <=> all limbs zero' % ty,
                   ['sm9_core::%s as Neg' % ty, 'U256::neg', 'is_zero']))
        S.append(K('lin::k_lin_%s_mul_forms' % f, ty + ': all six multiplicative operator forms reach the kernel U256::mul(self, other, modulus, inv) with operands in this order',
                   ['sm9_core::%s as Mul/MulAssign' % ty, 'fields::%s::mul_inplace' % ty], assumptions=['U256::mul replaced by a deterministic non-commutative tag function (kernel decided by engine L)']))
        S.append(K('lin::k_lin_%s_double_triple' % f, ty + ': double/triple equal 2a, 3a mod p', ['FieldElement::double', 'FieldElement::triple', 'U256::mul2']))
        S.append(K('lin::k_lin_%s_inverse_none_iff_zero' % f, ty + ': inverse() is None exactly for zero; otherwise invert is entered with a non-zero canonical value and its canonical result returned',
                   ['FieldElement::inverse'], assumptions=[CONTRACT]))
    S.append(K('lin::k_lin_fq_div2', 'Fq::div2 equals a/2 mod q (independent odd/even reference)', ['Fq::div2', 'U256::div2', 'U256::set_bit']))
    return S


def run_c06(tier):
    obls = kani.decide('C06', k_lin_specs(), tier)
    return obls


PROPS = {
    'C06': dict(run=run_c06, level='proof', trusted_base=KTRUST,
                not_covered=['value of inverse on non-zero inputs', 'pow for symbolic exponents', 'mul/square kernels (engine L, pending)'],
                explanation='bounded solver-decided obligations over the real code; see obligation_list'),
}


def match_known(pid, o):
    for k in known_findings().get('open', []):
        if k.get('property') == pid and k.get('obligation') == o.name:
            import re
            if re.search(k.get('class_regex', '.*'), (o.detail or '')):
                return k
    return None


import common
common.match_known = match_known
import builtins


def replay(pid, path):
    d = json.load(open(path))
    if d.get('engine') == 'K':
        rp = kani.native_replay(d['harness'].split('::')[-1], d['inputs_le_bytes'])
        for k, v in rp.items():
            print('[replay %s] exit=%s %s' % (k, v[0], v[1].strip().splitlines()[-1] if v[1].strip() else ''))
        if any(v[0] == 1 for v in rp.values()):
            print('VIOLATION property=%s replay=%s' % (pid, path))
            return 1
        return 0
    print('unknown replay engine')
    return 2
