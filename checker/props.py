"""Property -> obligations. Each property lists what decides it (DESIGN.md section 5)."""
import json, os, sys
from common import *
import kani

INTR = 'Intel ADC/SBB intrinsics (ark-ff asm feature) modelled by the u128 formula ark-ff uses without the feature'
CONTRACT = ('U256::mul / U256::square / Fq::sum_of_products / U256::invert replaced inside Kani by "returns an arbitrary '
            'value below the modulus" (over-approximation justified by engine L canonicity obligations)')
KTRUST = ['rustc + Kani 0.68 MIR->goto translation, CBMC 6.11 + CaDiCaL', INTR]


def K(harness, statement, functions, bounds='all 2^256-bit limb vectors below p; unwind 6 (limb loops)', assumptions=None):
    return dict(harness=harness, statement=statement, functions=functions, bounds=bounds,
                assumptions=[INTR] + (assumptions or []))


def k_lin_specs():
    S = []
    for f, ty in (('fq', 'Fq'), ('fr', 'Fr')):
        S.append(K('lin::k_lin_%s_add' % f, 'all six operator forms of %s addition on stored limbs a,b<p equal (a+b) mod p computed by an independent 5-limb reference; result <p' % ty,
                   ['sm9_core::%s as Add/AddAssign (4+2 forms)' % ty, 'fields::%s::add_inplace' % ty, 'U256::add', 'U256::subtract_modulus_with_carry', 'ark_ff BigInt::add_with_carry/sub_with_borrow']))
        S.append(K('lin::k_lin_%s_sub' % f, 'all six operator forms of %s subtraction equal (a-b) mod p; result <p' % ty,
                   ['sm9_core::%s as Sub/SubAssign' % ty, 'U256::sub']))
        S.append(K('lin::k_lin_%s_neg' % f, '%s: -a and -&a equal (p-a) mod p; is_zero <=> all limbs zero' % ty,
                   ['sm9_core::%s as Neg' % ty, 'U256::neg', 'is_zero']))
        S.append(K('lin::k_lin_%s_mul_forms' % f, ty + ': all six multiplicative operator forms reach the kernel U256::mul(self, other, modulus, inv) with operands in this order',
                   ['sm9_core::%s as Mul/MulAssign' % ty, 'fields::%s::mul_inplace' % ty], assumptions=['U256::mul replaced by a deterministic non-commutative tag function (kernel decided by engine L)']))
        S.append(K('lin::k_lin_%s_double_triple' % f, ty + ': double/triple equal 2a, 3a mod p', ['FieldElement::double', 'FieldElement::triple', 'U256::mul2']))
        S.append(K('lin::k_lin_%s_inverse_none_iff_zero' % f, ty + ': inverse() is None exactly for zero; otherwise invert is entered with a non-zero canonical value and its canonical result returned',
                   ['FieldElement::inverse'], assumptions=[CONTRACT]))
    S.append(K('lin::k_lin_fq_div2', 'Fq::div2 equals a/2 mod q (independent odd/even reference)', ['Fq::div2', 'U256::div2', 'U256::set_bit']))
    return S


MODEL = ('Kani-only contract model of the Montgomery kernels: encode (x*R^2) and decode (x*1) are mutually inverse bijections '
         'of [0,p) fixing 0, encode reduces a 256-bit value mod p first, other products are arbitrary canonical values that are '
         'zero iff a factor is zero (justified by engine L: L-enc, L-dec, L-mul range; field has no zero divisors)')
DIVC = 'U512::divrem replaced by "remainder is an arbitrary value below the modulus" (contract decided by engine L, L-divrem)'


def k_conv_specs():
    S = []
    bl = 'byte strings of EVERY length 0..=70 (length symbolic) with arbitrary content; unwind 72'
    S.append(K('conv::k_bytes_u256_from_slice', 'U256::from_slice: Ok exactly for 32 bytes, big-endian limb order', ['U256::from_slice'], 'lengths 0..=40 symbolic; unwind 34'))
    S.append(K('conv::k_bytes_u256_to_big_endian', 'U256::to_big_endian: wrong buffer size is Err (no panic); 32 bytes big-endian', ['U256::to_big_endian'], 'buffer lengths 0..=40 symbolic'))
    S.append(K('conv::k_bytes_u512_from_slice', 'U512::from_slice: Ok exactly for 64 bytes, big-endian limb order', ['U512::from_slice'], 'lengths 0..=70 symbolic'))
    for f in ('fq', 'fr'):
        T = f.capitalize()
        S.append(K('conv::k_conv_from_slice_%s' % f, T + '::from_slice: Some exactly for lengths 1..=64; result canonical; <=32 bytes: encode(big-endian value mod p); 33..=64: encode(remainder of the left-padded 512-bit value by p)',
                   ['sm9_core::%s::from_slice' % T, 'fields::%s::from_slice/new/new_mul_factor/interpret' % T, 'U512::interpret'], bl, [MODEL, DIVC]))
        S.append(K('conv::k_conv_roundtrip_%s' % f, T + ': to_slice is below p; from_slice(to_slice(x)) == x; to_slice(from_slice(b)) == b for b<p; is_zero exactly for 0',
                   ['to_slice', 'from_slice', 'is_zero'], 'all canonical x, all 32-byte b<p', [MODEL]))
        S.append(K('conv::k_conv_interpret_%s' % f, T + '::interpret(64 bytes) = encode(big-endian value mod p), canonical', ['%s::interpret' % T], 'all 64-byte strings', [MODEL, DIVC]))
        S.append(K('conv::k_conv_from_str_%s' % f, T + '::from_str: Some exactly for ASCII-digit strings; Horner step res*10+d per character', ['%s::from_str' % T], 'all valid UTF-8 strings of <= 2 bytes (longer strings repeat the same Horner step; a 3-byte harness exists, opt-in, never run to completion)', [MODEL]))
        S.append(K('conv::k_cmp_eq_%s' % f, T + ' == is limb equality of canonical representations; U256 ordering numeric', ['PartialEq', 'U256 Ord'], 'all pairs below p'))
        S.append(K('conv::k_random_canonical_%s' % f, T + '::random is fully reduced for EVERY RNG output stream', ['%s::random' % T, 'U256::random', 'U512::random'], 'RNG = arbitrary symbolic stream', [DIVC]))
    S.append(K('conv::k_conv_to_big_endian_fq', 'Fq::to_big_endian: Err on wrong buffer size (no panic); agrees with to_slice; is_even = parity of canonical value', ['Fq::to_big_endian', 'Fq::is_even'], 'buffer lengths 0..=40', [MODEL]))
    S.append(K('conv::k_conv_from_hash', 'Fr::from_hash: None exactly beyond 64 bytes; = encode(int(h) mod (canonical value of -1)) + 1', ['Fr::from_hash'], bl, [MODEL, DIVC]))
    S.append(K('conv::k_setbit_u256', 'U256::set_bit sets exactly bit n for n<256, returns false beyond', ['U256::set_bit', 'U256::get_bit'], 'all limbs, n in 0..=300'))
    S.append(K('conv::k_setbit_fr_canonical', 'Fr::set_bit from any canonical state leaves a canonical state', ['Fr::set_bit'], 'all canonical x, bit index 0..=300, both values', [MODEL]))
    S.append(K('conv::k_setbit_fr_value', 'Fr::set_bit(i,v) sets bit i of the canonical value (reducing mod r)', ['Fr::set_bit'], 'all canonical x, bit index 0..=300, both values', [MODEL]))
    S.append(K('conv::k_cmp_eq_fq2', 'Fq2 == is component-wise limb equality; is_zero; real/imaginary accessors', ['Fq2 PartialEq'], 'all pairs'))
    S.append(K('conv::k_conv_fq2_from_slice_len', 'Fq2::from_slice rejects (no panic) every length 0..=70 but 64', ['Fq2::from_slice'], 'lengths 0..=70 symbolic', [MODEL]))
    S.append(K('conv::k_fq2_bytes', 'Fq2::to_slice: imaginary part first, canonical values big-endian; is_even = parity of the canonical real part', ['Fq2::to_slice', 'Fq2::is_even'], 'all canonical pairs', ['layout-only model: decode is the identity on canonical values']))
    S.append(K('conv::k_conv_fq2_from_slice', 'Fq2::from_slice: Some exactly for 64 bytes with both coordinates below q (never a panic)',
               ['sm9_core::Fq2::from_slice', 'fields::Fq2::from_slice/to_slice'], 'all 64-byte strings', [MODEL]))
    return S


def k_dec_specs():
    S = []
    for g in ('g1', 'g2'):
        for k in ('raw', 'uncompressed', 'compressed'):
            S.append(K('dec::k_dec_%s_%s' % (g, k), '%s %s decoder on EVERY string of the exact length: no panic; Ok => exact prefix and every coordinate < q; Err only if malformed or sqrt/validated-constructor refused; every accepted point went through AffineG::new' % (g.upper(), k),
                       ['sm9_core::%s::from_%s' % (g.upper(), {'raw': 'slice', 'uncompressed': 'uncompressed', 'compressed': 'compressed'}[k]), 'to_slice/to_uncompressed/to_compressed', 'Fq::from_slice', 'Fq2::from_slice'],
                       'all byte strings of the exact format length (arbitrary prefix and coordinates)', [MODEL, 'Fq::sqrt / Fq2::sqrt replaced by "None, or Some(arbitrary canonical value)"; AffineG::new replaced by "Err, or Ok carrying exactly the given coordinates (y != 0)" - their own behaviour is decided by engine A']))
            S.append(K('dec::k_declen_%s_%s' % (g, k), '%s %s decoder returns Err (no panic) for every other length 0..=140' % (g.upper(), k), ['decoder length checks'],
                       'all strings of every length 0..=140 except the format length (each length, arbitrary content)', [MODEL]))
    S.append(K('dec::k_enc_g1', 'G1 encoders: raw = x||y big-endian; 0x04 prefix; compressed prefix 0x02/0x03 = parity of canonical y', ['G1::to_slice/to_uncompressed/to_compressed'], 'all canonical coordinate pairs (z = 1)', ['layout-only model: decode is the identity on canonical values']))
    for kk in ('raw', 'uncompressed', 'compressed'):
        S.append(K('dec::k_enc_g2_' + kk, 'G2 ' + kk + ' encoder: imaginary before real, x before y; prefix 0x04 / parity of the real part of y', ['G2::to_slice/to_uncompressed/to_compressed', 'Fq2::to_slice'], 'all canonical coordinates (z = 1)', ['layout-only model: decode is the identity on canonical values']))
    return S


def k_gt_specs():
    return [K('dec::k_gt_bytes', 'Gt::to_slice: 384 bytes = twelve canonical coefficients, highest first', ['Gt::to_slice', 'Fq12/Fq4/Fq2::to_slice'], 'all twelve coefficients below q', ['layout-only model: decode is the identity on canonical values (byte placement cannot depend on which bijection decode is)']),
            K('dec::k_gt_eq', 'Gt == is equality of all twelve canonical coefficients', ['Gt PartialEq'], 'all pairs')]


ATRUST = ['z3 (polynomial identities over Z, reduced mod q), own polynomial normal form as cross-check', 'overlay model of the base field = contracts proved by engine L (mul, squared, sum_of_products = sum a_i*b_i, div2)',
          'F_q is a field (integral domain); generic group code is parametric in its base ring (Rust trait bounds)', 'Python reference (checker/poly.py, algreplay.py) written from the standard']


def A(pid, parts, tier):
    import algchk
    return algchk.run_parts(pid, parts, SEED, tier == 'thorough').obls


def run_c03(tier):
    return A('C03', ['wrappers', 'normalize', 'gabs_toaffine'], tier)


def skel(pid, tier, whiches):
    """loop skeletons with a witness search when a skeleton cannot be established (refuted, or the IR no longer
    has the supported shape): the solver's scalars and a catalogue of structured scalars are replayed natively"""
    import lengine, algreplay
    obls = lengine.skeleton(pid, tier, whiches)
    bad = [o for o in obls if not o.name.endswith('canary') and o.status != 'proved']
    if bad:
        ks = []
        for o in bad:
            ks += getattr(o, 'skel', {}).get('scalars', []) or []
        if any(o.name.startswith('L-smul') for o in bad):
            rep, wit = algreplay.replay_smul(ks)
        else:
            rep, wit = algreplay.replay_pow(ks)
        if rep:
            o = bad[0]
            o.status = 'violated'
            o.witness = write_replay(pid, o.name, dict(property=pid, engine='L', obligation=o.name, native_replay=wit, how_to_replay='./check %s --replay <this file>' % pid))
            o.detail = 'reproduced natively: %s (scalar/exponent %s) | %s' % (wit.get('mismatch'), wit.get('scalar', wit.get('exponent')), o.detail[:200])
    return obls


def run_c05(tier):
    obls = skel('C05', tier, ('g1', 'g2'))
    obls += Ld('C05', ['L-dec-r'], tier)
    obls += A('C05', ['gabs_law', 'consts'], tier)
    return obls


def run_c14(tier):
    return A('C14', ['sqrt'], tier)


def run_c04(tier):
    return A('C04', ['gabs_law', 'consts'], tier)


def run_c15(tier):
    return A('C15', ['gabs_eq', 'normalize'], tier)


def run_c12(tier):
    from concurrent.futures import ThreadPoolExecutor
    with ThreadPoolExecutor(max_workers=1) as ex_:   # engine L side by side with A and K
        fl = ex_.submit(Ld, 'C12', ['L-sop2', 'L-const'], tier)
        rest = A('C12', ['fq2'], tier) + kani.decide('C12', sel(k_conv_specs(), ['k_cmp_eq_fq2', 'k_conv_fq2_from_slice', 'k_fq2_bytes']), tier, pool=4)
        return fl.result() + rest


def run_c17(tier):
    # the two engines work on different artefacts (overlay binary / release IR): run them side by side so that the
    # quick tier stays within minutes on a changed tree (L-sop4 alone is ~10 min of z3)
    from concurrent.futures import ThreadPoolExecutor
    with ThreadPoolExecutor(max_workers=1) as ex_:
        fl = ex_.submit(Ld, 'C17', ['L-sop4'], tier)
        a = A('C17', ['fq4', 'fq12', 'fq12_inv', 'exponents'], tier)
        return a + fl.result()


def run_c09(tier):
    # the subgroup test computes (r-1)P + P with the generic scalar multiplication and addition: its correctness on
    # EVERY twist point (also points of small order, where accumulator and base coincide or are opposite) is the
    # group law (C04 obligations) and the loop skeleton (C05), re-decided here
    return A('C09', ['gabs_new', 'affine_new', 'consts', 'gabs_law'], tier) + skel('C09', tier, ('g2',)) + kani.decide('C09', sel(k_dec_specs(), ['k_dec_']), tier, timeout_s=1500 if tier == 'quick' else 3600, pool=6)


def Ld(pid, names, tier):
    import lengine
    return lengine.decide(pid, names, tier)


def run_c06(tier):
    import lengine
    obls = kani.decide('C06', k_lin_specs(), tier)
    obls += Ld('C06', lengine.MUL + lengine.LIN, tier)
    obls += skel('C06', tier, ('fq', 'fr'))
    return obls


def sel(specs, names):
    return [s for s in specs if any(s['harness'].split('::')[-1].startswith(n) for n in names)]


def run_c13(tier):
    S = k_conv_specs()
    if tier == 'thorough' and os.environ.get('VERIF_FROM_STR3'):
        # opt-in only: the 2-byte harness needs 600-880 s of CBMC; the 3-byte one was never run to completion here
        S.append(K('conv::k_conv_from_str3_fr', 'Fr::from_str on all valid UTF-8 strings of <= 3 bytes', ['Fr::from_str'], '<= 3 bytes', [MODEL]))
    return kani.decide('C13', S, tier, pool=8) + Ld('C13', ['L-enc-q', 'L-enc-r', 'L-dec-q', 'L-dec-r', 'L-const', 'L-divrem-q', 'L-divrem-r', 'L-divrem-r-1'], tier)


def run_c08(tier):
    S = k_dec_specs()
    S = [s for s in S if 'k_enc_' not in s['harness']]
    return kani.decide('C08', S, tier, timeout_s=1500 if tier == 'quick' else 3600, pool=6)


def run_c07(tier):
    S = sel(k_lin_specs(), ['k_lin_']) + sel(k_conv_specs(), ['k_conv_from_slice', 'k_conv_interpret', 'k_conv_from_hash', 'k_conv_from_str', 'k_random', 'k_setbit_fr', 'k_cmp_eq', 'k_conv_fq2_from_slice', 'k_conv_roundtrip'])
    import lengine
    from concurrent.futures import ThreadPoolExecutor
    with ThreadPoolExecutor(max_workers=1) as ex_:   # engines K and L side by side (different artefacts)
        fl = ex_.submit(Ld, 'C07', lengine.MUL + lengine.SOP[:1] + lengine.DIV, tier)
        k = kani.decide('C07', S, tier, pool=8)
        L = [o for o in fl.result() if o.name.endswith('-range') or o.name.startswith('L-const') or o.name.startswith('L-divrem')]
    return k + L


def run_c10(tier):
    S = sel(k_dec_specs(), ['k_enc_'])
    return A('C10', ['gabs_toaffine', 'normalize'], tier) + kani.decide('C10', S, tier, timeout_s=1500 if tier == 'quick' else 3600, pool=6)


def run_c11(tier):
    import lengine
    return A('C11', ['fq12_gt', 'fq12_inv', 'exponents'], tier) + skel('C11', tier, ('fq12',)) + kani.decide('C11', k_gt_specs(), tier, pool=4)


def run_c16(tier):
    return A('C16', ['gabs_all', 'normalize', 'consts'], tier)


def run_c18(tier):
    S = k_lin_specs() + sel(k_conv_specs(), ['k_bytes', 'k_conv_to_big_endian', 'k_setbit', 'k_conv_fq2_from_slice']) + sel(k_dec_specs(), ['k_dec_', 'k_declen_'])
    import lengine
    return kani.decide('C18', S, tier, timeout_s=1500 if tier == 'quick' else 3600, pool=6) + Ld('C18', lengine.LIN + lengine.DIV, tier)


PROPS = {
    'C05': dict(run=run_c05, level='proof', trusted_base=ATRUST + ['z3 LIA; release IR = the code that runs; abstraction of double/add by 2c / c1+c2 is justified by C04 (every branch returns the group sum)'],
                not_covered=['r*P = O, (r-1)P = -P and "order exactly r" for arbitrary points are consequences given r*G = O (checked for the two generators with the affine reference) and C06 (Fr is Z/r)',
                             'if LLVM stops emitting the loop with out-of-line double/add the skeleton is reported inconclusive'],
                explanation='P*k = k-fold sum of P decomposes into: canonical scalar (L-dec-r), loop skeleton on the release IR with callees abstracted (cut points, Houdini invariant, all 256-bit k), and the group law of the callees on every representative (C04 obligations re-run)'),
    'C14': dict(run=run_c14, level='proof', trusted_base=ATRUST + ['-2 and 2 are quadratic non-residues mod q, -1 is a residue (recomputed numerically)', 'contract of Fq::sqrt: Some(s) with s^2 = x exactly for squares, either root'],
                not_covered=['Fq::sqrt itself (exponentiation chains over the real limb code: one symbolic Montgomery product is out of reach of CBMC, and its log-domain model (overlay variant U) was not built); only its contract is assumed',
                             'leaves of the general task outside the three stratified families'],
                explanation='every path of the real Fq2::sqrt over symbolic inputs; soundness: the final equality s^2 = x is decided on every Some leaf; completeness: on x = c^2, on real x (residue and non-residue, both roots of the norm) and on purely imaginary x every FEASIBLE leaf returns the expected answer, feasibility decided by quadratic-character reasoning over the leaf decisions'),
    'C03': dict(run=run_c03, level='proof', trusted_base=ATRUST + ['dependency (taint) analysis of the symbolic result DAG; to_affine itself is verified under C15'],
                not_covered=['that the three entry points return the SAME value on non-identity inputs (that is C02 for each of them: value of the 65-step Miller loop)'],
                explanation='whole pairing entry points executed symbolically (Miller loop + final exponentiation, ~10^5 DAG nodes); the result may reach the raw Jacobian coordinates only through the to_affine outputs'),
    'C04': dict(run=run_c04, level='proof', trusted_base=ATRUST, not_covered=['associativity as such (a theorem about the curve once + is the chord-and-tangent law)'], explanation=''),
    'C15': dict(run=run_c15, level='proof', trusted_base=ATRUST, not_covered=['separating P from -P uses: no point of order two (group orders are odd)'], explanation=''),
    'C12': dict(run=run_c12, level='proof', trusted_base=ATRUST + KTRUST, not_covered=['Fq2::pow / frobenius_map on Fq2 alone (covered through the tower obligations of C17)'], explanation=''),
    'C17': dict(run=run_c17, level='proof', trusted_base=ATRUST, not_covered=['line functions (eval_g_tangent, eval_g_line, g_tangent, g_line, point_pi*, q_power_frobenius)', 'composition of the 65 Miller iterations / agreement of the two Miller loops'], explanation=''),
    'C09': dict(run=run_c09, level='proof', trusted_base=ATRUST + KTRUST, not_covered=['that r*P = O characterises the order-r subgroup of the twist (cofactor coprime to r): number theory, trusted',
                'the 256-step subgroup scalar multiplication is followed along its generic path; its correctness is C05 + C04'], explanation=''),
    'C16': dict(run=run_c16, level='proof', trusted_base=ATRUST, not_covered=['scalar multiplication steps (C05)', 'pairing observers (C03)'], explanation='inductive-step argument: every operation, from ARBITRARY representatives (including non-canonical identities (x, y, 0)), returns a representative of the right group element and every observer depends only on the element'),
    'C07': dict(run=run_c07, level='proof', trusted_base=KTRUST, not_covered=['U256::invert (binary extended Euclid: data-dependent trip count, no cut-point skeleton was built for it); its callers are covered only through the algebraic contract inv(a)*a = 1 used by engine A', 'sum_of_products::<4> range is decided under C17 (L-sop4), not repeated here'], explanation=''),
    'C10': dict(run=run_c10, level='proof', trusted_base=KTRUST, not_covered=['compressed encoders choose the y-parity bit from the canonical y: decided bit-precisely only in the layout model (mul_dec_id contract), the value of y itself is the to_affine obligation of engine A'], explanation=''),
    'C11': dict(run=run_c11, level='proof', trusted_base=KTRUST, not_covered=['exponent laws that need g^r = 1 for pairing outputs (order of the target group: a theorem about the curve, C01 territory)'], explanation=''),
    'C18': dict(run=run_c18, level='proof', trusted_base=KTRUST, not_covered=['the debug self-check inside U512::divrem and U512::new (a 512-bit multiply-and-compare): CBMC returned no verdict in 25-40 min on k_u512_new_*; the harnesses are kept in the crate but not registered'], explanation='every K harness is decided with debug assertions and overflow checks modelled (dev profile); a reachable debug_assert / overflow is a verification failure'),
    'C13': dict(run=run_c13, level='proof', trusted_base=KTRUST, not_covered=['from_str beyond 2-byte strings (the same Horner step repeated; the 3-byte harness k_conv_from_str3_fr exists but is opt-in and was never run to completion)'], explanation=''),
    'C08': dict(run=run_c08, level='proof', trusted_base=KTRUST, not_covered=['completeness for G2 needs Fq2::sqrt completeness (C14) and the subgroup theorem'], explanation=''),
    'C06': dict(run=run_c06, level='proof', trusted_base=KTRUST,
                not_covered=['U256::invert (binary extended Euclid, data-dependent trip count): only inverse(0) = None and the contract use inv(a)*a = 1 in engine A are covered', 'pow: the loop skeleton covers every exponent, the multiply/square callees are the L-mul / L-sq obligations; their composition is by induction on the loop, argued in DESIGN.md, not a solver query'],
                explanation='bounded solver-decided obligations over the real code; see obligation_list'),
}


def match_known(pid, o):
    for k in known_findings().get('open', []):
        if k.get('property') == pid and k.get('obligation') == o.name:
            import re
            if re.search(k.get('class_regex', '.*'), (o.detail or '')):
                return k
    return None


import common
common.match_known = match_known
import builtins


def replay(pid, path):
    d = json.load(open(path))
    if d.get('engine') == 'K':
        rp = kani.native_replay(d['harness'].split('::')[-1], d['inputs_le_bytes'])
        for k, v in rp.items():
            print('[replay %s] exit=%s %s' % (k, v[0], v[1].strip().splitlines()[-1] if v[1].strip() else ''))
        if any(v[0] == 1 for v in rp.values()):
            print('VIOLATION property=%s replay=%s' % (pid, path))
            return 1
        return 0
    if d.get('engine') in ('A', 'L'):
        import algreplay
        nr = d.get('native_replay') or {}
        print('[replay] stored native mismatch: %s' % (nr.get('mismatch') or nr))
        if nr.get('task') and nr.get('inputs'):
            out, err = algreplay.native_alg(nr['task'], {k: int(v, 16) for k, v in nr['inputs'].items()})
            print('[replay] native %s -> %s' % (nr['task'], ['%064x' % x for x in out] if out else err))
            if out is not None and ['%064x' % x for x in out] == nr.get('native_output'):
                print('VIOLATION property=%s replay=%s' % (pid, path))
                return 1
            return 0
        w = d.get('witness') or {}
        if w.get('op') and w.get('inputs'):
            import lengine
            sys.path.insert(0, os.path.join(VERIF, 'llir'))
            import kernels
            kernels.REPLAY_EXE = kani.build_replay('release')
            ins = [int(x, 16) for x in w['inputs']]
            got = kernels.native_kernel(w['op'], ins)
            print('[replay] native %s(%s) = %x, stored expectation %s' % (w['op'], w['inputs'], got, w.get('expected')))
            if '%x' % got != w.get('expected'):
                print('VIOLATION property=%s replay=%s' % (pid, path))
                return 1
            return 0
        print('VIOLATION property=%s replay=%s (stored witness; re-run ./check %s for a fresh replay)' % (pid, path, pid))
        return 1
    print('unknown replay engine')
    return 2
