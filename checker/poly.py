"""Polynomials over Z/q in named variables, tower elements F_q[w]/(w^12+2), fractions; DAG evaluation;
conversion to z3. Specifications are written from the SM9 standard (Part 1), not from the code."""
import z3

Q = 0xB640000002A3A6F1D603AB4FF58EC74521F2934B1A7AEEDBE56F9B27E351457D
RORD = 0xB640000002A3A6F1D603AB4FF58EC74449F2934B18EA8BEEE56EE19CD69ECF25


class Poly:
    """sparse polynomial: {monomial: coeff mod q}; monomial = tuple of (var, exp) sorted by var"""
    __slots__ = ('t',)

    def __init__(self, t=None):
        self.t = t or {}

    @staticmethod
    def const(c):
        c %= Q
        return Poly({(): c} if c else {})

    @staticmethod
    def var(name):
        return Poly({((name, 1),): 1})

    def is_zero(self):
        return not self.t

    def __add__(self, o):
        if isinstance(o, int):
            o = Poly.const(o)
        r = dict(self.t)
        for m, c in o.t.items():
            v = (r.get(m, 0) + c) % Q
            if v:
                r[m] = v
            else:
                r.pop(m, None)
        return Poly(r)

    __radd__ = __add__

    def __neg__(self):
        return Poly({m: (-c) % Q for m, c in self.t.items()})

    def __sub__(self, o):
        if isinstance(o, int):
            o = Poly.const(o)
        return self + (-o)

    def __rsub__(self, o):
        return (-self) + o

    def __mul__(self, o):
        if isinstance(o, int):
            o %= Q
            return Poly({m: c * o % Q for m, c in self.t.items() if c * o % Q}) if o else Poly()
        if len(self.t) > len(o.t):
            self, o = o, self
        r = {}
        for m1, c1 in self.t.items():
            for m2, c2 in o.t.items():
                m = mono_mul(m1, m2)
                v = (r.get(m, 0) + c1 * c2) % Q
                if v:
                    r[m] = v
                else:
                    r.pop(m, None)
        return Poly(r)

    __rmul__ = __mul__

    def __eq__(self, o):
        if isinstance(o, int):
            o = Poly.const(o)
        return self.t == o.t

    def __hash__(self):
        return hash(frozenset(self.t.items()))

    def vars(self):
        s = set()
        for m in self.t:
            for v, e in m:
                s.add(v)
        return s

    def eval(self, env):
        r = 0
        for m, c in self.t.items():
            t = c
            for v, e in m:
                t = t * pow(env[v], e, Q) % Q
            r = (r + t) % Q
        return r

    def subst(self, name, p):
        """substitute polynomial p for variable name"""
        r = Poly()
        cache = {0: Poly.const(1)}
        for m, c in self.t.items():
            e = 0
            rest = []
            for v, k in m:
                if v == name:
                    e = k
                else:
                    rest.append((v, k))
            if e not in cache:
                pw = Poly.const(1)
                for _ in range(e):
                    pw = pw * p
                cache[e] = pw
            r = r + Poly({tuple(rest): c}) * cache[e]
        return r

    def degree(self):
        return max((sum(e for _, e in m) for m in self.t), default=0)

    def to_z3(self, zv):
        terms = []
        for m, c in self.t.items():
            t = z3.IntVal(c)
            for v, e in m:
                for _ in range(e):
                    t = t * zv(v)
            terms.append(t)
        return z3.Sum(terms) if terms else z3.IntVal(0)

    def __repr__(self):
        if not self.t:
            return '0'
        return ' + '.join('%s%s' % (('%d*' % c) if c != 1 or not m else '', '*'.join('%s^%d' % (v, e) if e > 1 else v for v, e in m)) for m, c in list(self.t.items())[:6]) + (' ...' if len(self.t) > 6 else '')


def mono_mul(a, b):
    if not a:
        return b
    if not b:
        return a
    d = dict(a)
    for v, e in b:
        d[v] = d.get(v, 0) + e
    return tuple(sorted(d.items()))


P0 = Poly()
P1 = Poly.const(1)


# ------------------------------------------------------------------------------------------ tower
class T:
    """element of R[w]/(w^12+2) with R = polynomials over F_q: list of 12 Poly (coefficient of w^e)"""
    __slots__ = ('c',)

    def __init__(self, c=None):
        self.c = c or [P0] * 12

    @staticmethod
    def of(p, e=0):
        c = [P0] * 12
        c[e] = p if isinstance(p, Poly) else Poly.const(p)
        return T(c)

    def __add__(self, o):
        o = tw(o)
        return T([a + b for a, b in zip(self.c, o.c)])

    __radd__ = __add__

    def __neg__(self):
        return T([-a for a in self.c])

    def __sub__(self, o):
        return self + (-tw(o))

    def __rsub__(self, o):
        return tw(o) - self

    def __mul__(self, o):
        o = tw(o)
        r = [P0] * 12
        for i, a in enumerate(self.c):
            if a.is_zero():
                continue
            for j, b in enumerate(o.c):
                if b.is_zero():
                    continue
                p = a * b
                k = i + j
                if k >= 12:
                    r[k - 12] = r[k - 12] - p * 2  # w^12 = -2
                else:
                    r[k] = r[k] + p
        return T(r)

    __rmul__ = __mul__

    def is_zero(self):
        return all(a.is_zero() for a in self.c)

    def __eq__(self, o):
        return (self - tw(o)).is_zero()

    def conj(self, e):
        """w -> -w style automorphism restricted: negate coefficients with odd multiples of e"""
        return T([(-a if (i // e) % 2 == 1 else a) for i, a in enumerate(self.c)])

    def map(self, f):
        return T([f(a) for a in self.c])


def tw(x):
    if isinstance(x, T):
        return x
    if isinstance(x, Poly):
        return T.of(x)
    return T.of(Poly.const(x))


U = T.of(1, 6)  # u = w^6, u^2 = -2
V = T.of(1, 3)  # v = w^3, v^2 = u
Wg = T.of(1, 1)


def from_fq2(a):  # (c0, c1) polys
    return tw(a[0]) + tw(a[1]) * U


def from_fq4(a):  # 4 polys: c0.c0, c0.c1, c1.c0, c1.c1
    return from_fq2(a[0:2]) + from_fq2(a[2:4]) * V


def from_fq12(a):  # 12 polys in o12 order
    return from_fq4(a[0:4]) + from_fq4(a[4:8]) * Wg + from_fq4(a[8:12]) * Wg * Wg


IDX2 = [0, 6]
IDX4 = [0, 6, 3, 9]
IDX12 = [0, 6, 3, 9, 1, 7, 4, 10, 2, 8, 5, 11]


def coords(t, n):
    idx = {1: [0], 2: IDX2, 4: IDX4, 12: IDX12}[n]
    return [t.c[i] for i in idx]


def in_subring(t, n):
    idx = set({1: [0], 2: IDX2, 4: IDX4, 12: IDX12}[n])
    return all(t.c[i].is_zero() for i in range(12) if i not in idx)


class Frac:
    """num/den over the tower ring (den assumed non-zero on the path)"""
    __slots__ = ('n', 'd')

    def __init__(self, n, d=None):
        self.n = tw(n)
        self.d = tw(d) if d is not None else tw(1)

    def __add__(self, o):
        o = fr(o)
        return Frac(self.n * o.d + o.n * self.d, self.d * o.d)

    def __sub__(self, o):
        o = fr(o)
        return Frac(self.n * o.d - o.n * self.d, self.d * o.d)

    def __neg__(self):
        return Frac(-self.n, self.d)

    def __mul__(self, o):
        o = fr(o)
        return Frac(self.n * o.n, self.d * o.d)

    def __truediv__(self, o):
        o = fr(o)
        return Frac(self.n * o.d, self.d * o.n)

    def same(self, o):
        """difference numerator (zero tower element iff equal, given non-zero denominators)"""
        o = fr(o)
        return self.n * o.d - o.n * self.d


def fr(x):
    return x if isinstance(x, Frac) else Frac(x)


# ------------------------------------------------------------------------------------------ numeric tower (reference)
def nmul(a, b):
    r = [0] * 12
    for i, x in enumerate(a):
        if x:
            for j, y in enumerate(b):
                if y:
                    k = i + j
                    if k >= 12:
                        r[k - 12] = (r[k - 12] - 2 * x * y) % Q
                    else:
                        r[k] = (r[k] + x * y) % Q
    return r


def npow(a, e):
    r = [1] + [0] * 11
    while e:
        if e & 1:
            r = nmul(r, a)
        a = nmul(a, a)
        e >>= 1
    return r


_frob_cache = {}


def frob_w(k):
    """w^(q^k) as a numeric tower element, computed from q alone"""
    if k not in _frob_cache:
        w = [0, 1] + [0] * 10
        _frob_cache[k] = npow(w, Q ** k)
    return _frob_cache[k]


def frobenius(t, k):
    """x -> x^(q^k) on a tower element with polynomial coefficients (coefficients are fixed: a^q = a)"""
    wk = frob_w(k)
    r = tw(0)
    pw = [1] + [0] * 11
    for e in range(12):
        if not t.c[e].is_zero():
            r = r + T([t.c[e] * c for c in pw])
        pw = nmul(pw, wk)
    return r


# ------------------------------------------------------------------------------------------ DAG
class Dag:
    def __init__(self, nodes):
        self.n = {x[0]: x for x in nodes}
        self.poly = {}
        self.facts = []  # (kind, var name, argument poly): inv: t*arg = 1 ; sqrt: s*s = arg

    def p(self, i):
        """polynomial of node i (iterative post-order)"""
        if i in self.poly:
            return self.poly[i]
        stack = [i]
        while stack:
            k = stack[-1]
            if k in self.poly:
                stack.pop()
                continue
            nd = self.n[k]
            kind = nd[1]
            deps = [d for d in nd[2:] if isinstance(d, int)] if kind not in ('var', 'const') else []
            miss = [d for d in deps if d not in self.poly]
            if miss:
                stack.extend(miss)
                continue
            if kind == 'var':
                r = Poly.var(nd[2])
            elif kind == 'const':
                r = Poly.const(int(nd[2], 16))
            elif kind == 'add':
                r = self.poly[nd[2]] + self.poly[nd[3]]
            elif kind == 'sub':
                r = self.poly[nd[2]] - self.poly[nd[3]]
            elif kind == 'mul':
                r = self.poly[nd[2]] * self.poly[nd[3]]
            elif kind == 'neg':
                r = -self.poly[nd[2]]
            elif kind in ('inv', 'sqrt'):
                name = '%s#%d' % (kind, k)
                r = Poly.var(name)
                self.facts.append((kind, name, self.poly[nd[2]], nd[2]))
            else:
                raise ValueError(kind)
            self.poly[k] = r
            stack.pop()
        return self.poly[i]

    def reach(self, roots, stop=()):
        """set of node ids reachable from roots without passing through `stop` nodes"""
        seen = set()
        st = [r for r in roots]
        while st:
            k = st.pop()
            if k in seen or k in stop:
                continue
            seen.add(k)
            nd = self.n[k]
            if nd[1] not in ('var', 'const'):
                st.extend(d for d in nd[2:] if isinstance(d, int))
        return seen

    def z3expr(self, i, zv, cache):
        """un-normalised z3 Int expression of node i (let-bound through Python sharing)"""
        stack = [i]
        while stack:
            k = stack[-1]
            if k in cache:
                stack.pop()
                continue
            nd = self.n[k]
            kind = nd[1]
            deps = [d for d in nd[2:] if isinstance(d, int)] if kind not in ('var', 'const') else []
            miss = [d for d in deps if d not in cache]
            if miss:
                stack.extend(miss)
                continue
            if kind == 'var':
                r = zv(nd[2])
            elif kind == 'const':
                r = z3.IntVal(int(nd[2], 16))
            elif kind == 'add':
                r = cache[nd[2]] + cache[nd[3]]
            elif kind == 'sub':
                r = cache[nd[2]] - cache[nd[3]]
            elif kind == 'mul':
                r = cache[nd[2]] * cache[nd[3]]
            elif kind == 'neg':
                r = -cache[nd[2]]
            else:
                r = zv('%s#%d' % (kind, k))
            cache[k] = r
            stack.pop()
        return cache[i]


def z3_identity(polys, timeout_ms=60000):
    """ask z3 whether some polynomial of `polys` can be non-zero mod q for integer values of its variables.
    returns ('unsat'|'sat'|'unknown', model dict|None, seconds)"""
    import time
    t0 = time.time()
    zvars = {}

    def zv(name):
        if name not in zvars:
            zvars[name] = z3.Int(name.replace('#', '_'))
        return zvars[name]

    s = z3.Solver()
    s.set('timeout', timeout_ms)
    dis = [p.to_z3(zv) % Q != 0 for p in polys if not p.is_zero()]
    if not dis:
        s.add(z3.BoolVal(False))
    else:
        s.add(z3.Or(*dis))
    r = s.check()
    mdl = None
    if r == z3.sat:
        m = s.model()
        mdl = {n: (m.eval(v, model_completion=True).as_long() % Q) for n, v in zvars.items()}
    return str(r), mdl, time.time() - t0


def find_nonroot(polys, seed=0, tries=8):
    """a point where some polynomial is non-zero mod q (counterexample search for a refuted identity)"""
    import random
    rnd = random.Random(seed)
    vs = sorted(set().union(*[p.vars() for p in polys])) if polys else []
    for t in range(tries):
        env = {v: (rnd.randrange(Q) if t else (3 + 2 * i)) for i, v in enumerate(vs)}
        for p in polys:
            if not p.is_zero() and p.eval(env) != 0:
                return env
    return None
