import sys, os
sys.path.insert(0, os.path.dirname(os.path.abspath(__file__)))
import kani
r = kani.parse_log(open(sys.argv[1], errors='replace').read())
for h, v in sorted(r.items()):
    print('%-44s %-10s %7.1fs covers=%s %s' % (h, v.get('status'), v.get('seconds', 0), v.get('covers'), '; '.join(v.get('failed', []))[:150]))
