"""Native replay of engine-A counterexamples: the same task evaluated by the REAL build (replay --alg) on
concrete field elements, compared with an independent Python reference (integers mod q, affine
chord-and-tangent arithmetic, tower polynomials)."""
import os, random, subprocess, json
from poly import Q, RORD
import kani

# ---- numeric fields ----------------------------------------------------------------------------------
class F1:
    n = 1

    @staticmethod
    def add(a, b): return (a + b) % Q
    @staticmethod
    def sub(a, b): return (a - b) % Q
    @staticmethod
    def mul(a, b): return a * b % Q
    @staticmethod
    def neg(a): return (-a) % Q
    @staticmethod
    def inv(a): return pow(a, -1, Q)
    @staticmethod
    def smul(a, k): return a * k % Q
    zero, one = 0, 1

    @staticmethod
    def coords(a): return [a]
    @staticmethod
    def rnd(r): return r.randrange(1, Q)


class F2:
    n = 2

    @staticmethod
    def add(a, b): return ((a[0] + b[0]) % Q, (a[1] + b[1]) % Q)
    @staticmethod
    def sub(a, b): return ((a[0] - b[0]) % Q, (a[1] - b[1]) % Q)
    @staticmethod
    def mul(a, b): return ((a[0] * b[0] - 2 * a[1] * b[1]) % Q, (a[0] * b[1] + a[1] * b[0]) % Q)
    @staticmethod
    def neg(a): return ((-a[0]) % Q, (-a[1]) % Q)
    @staticmethod
    def inv(a):
        n = pow(a[0] * a[0] + 2 * a[1] * a[1], -1, Q)
        return (a[0] * n % Q, (-a[1]) * n % Q)
    @staticmethod
    def smul(a, k): return (a[0] * k % Q, a[1] * k % Q)
    zero, one = (0, 0), (1, 0)

    @staticmethod
    def coords(a): return [a[0], a[1]]
    @staticmethod
    def rnd(r): return (r.randrange(1, Q), r.randrange(1, Q))


# generators from the SM9 standard (Part 5, Annex A parameters)
G1X = 0x93DE051D62BF718FF5ED0704487D01D6E1E4086909DC3280E8C4E4817C66DDDD
G1Y = 0x21FE8DDA4F21E607631065125C395BBC1C1C00CBFA6024350C464CD70A3EA616
G2X = (0x3722755292130B08D2AAB97FD34EC120EE265948D19C17ABF9B7213BAF82D65B, 0x85AEF3D078640C98597B6027B441A01FF1DD2C190F5E93C454806C11D8806141)
G2Y = (0xA7CF28D519BE3DA65F3170153D278FF247EFBA98A71A08116215BBA5C999A7C7, 0x17509B092E845C1266BA0D262CBEE6ED0736A96FA347C8BD856DC76B84EBEB96)


def aff_add(F, P, Qp):
    if P is None: return Qp
    if Qp is None: return P
    (x1, y1), (x2, y2) = P, Qp
    if x1 == x2:
        if F.add(y1, y2) == F.zero:
            return None
        lam = F.mul(F.smul(F.mul(x1, x1), 3), F.inv(F.smul(y1, 2)))
    else:
        lam = F.mul(F.sub(y2, y1), F.inv(F.sub(x2, x1)))
    x3 = F.sub(F.sub(F.mul(lam, lam), x1), x2)
    return (x3, F.sub(F.mul(lam, F.sub(x1, x3)), y1))


def aff_mul(F, P, k):
    R = None
    for b in bin(k)[2:]:
        R = aff_add(F, R, R)
        if b == '1':
            R = aff_add(F, R, P)
    return R


def aff_neg(F, P):
    return None if P is None else (P[0], F.neg(P[1]))


_zeta = None


def zeta():
    global _zeta
    if _zeta is None:
        g = 2
        while True:
            z = pow(g, (Q - 1) // 3, Q)
            if z != 1:
                _zeta = z
                break
            g += 1
    return _zeta


def jac(F, P, mode, rnd, special=0):
    """a Jacobian representative of affine P in the given mode (special: 1 -> lambda = -1, 2 -> lambda = 2)"""
    if mode == 'o' or P is None:
        return (F.rnd(rnd), F.rnd(rnd), F.zero)
    if mode == 'a':
        return (P[0], P[1], F.one)
    lam = F.rnd(rnd)
    if special == 1:
        lam = F.neg(F.one)
    elif special == 2:
        lam = F.add(F.one, F.one)
    elif special == 3 and F.n == 2:
        lam = (1, lam[1])      # real part exactly one, imaginary part arbitrary
    elif special == 3:
        lam = F.inv(F.add(F.one, F.one))
    l2 = F.mul(lam, lam)
    return (F.mul(P[0], l2), F.mul(P[1], F.mul(l2, lam)), lam)


def jac_to_aff(F, J):
    X, Y, Z = J
    if Z == F.zero:
        return None
    zi = F.inv(Z)
    z2 = F.mul(zi, zi)
    return (F.mul(X, z2), F.mul(Y, F.mul(z2, zi)))


def native_alg(task, env):
    exe = kani.build_replay('release')
    if not exe:
        return None, 'replay build failed'
    args = [exe, '--alg', task] + ['%s=%064x' % (k, v % Q) for k, v in env.items()]
    p = subprocess.run(args, capture_output=True, text=True, timeout=300)
    out = p.stdout.strip().splitlines()
    if p.returncode != 0 or not out or out[0] in ('UNKNOWN-TASK', 'PANIC'):
        return None, (out[0] if out else 'no output') + ' ' + p.stderr[-200:]
    return [int(x, 16) for x in out], ''


def point_env(F, n, J):
    e = {}
    names = ('X', 'Y', 'Z')
    for nm, c in zip(names, J):
        cs = F.coords(c)
        if F.n == 1:
            e['%s%s' % (nm, n)] = cs[0]
        else:
            e['%s%s0' % (nm, n)] = cs[0]
            e['%s%s1' % (nm, n)] = cs[1]
    return e


def case_points(F, case, seed):
    G = (G1X, G1Y) if F.n == 1 else (G2X, G2Y)
    P = aff_mul(F, G, 7 + seed)
    z = zeta()
    if case in ('independent', None):
        Qp = aff_mul(F, G, 5 + 2 * seed)
    elif case == 'equal points':
        Qp = P
    elif case == 'opposite points':
        Qp = aff_neg(F, P)
    elif case == 'equal y, different x':
        Qp = (F.smul(P[0], z), P[1])
    elif case == 'opposite y, different x':
        Qp = (F.smul(P[0], z), F.neg(P[1]))
    else:
        Qp = aff_mul(F, G, 5)
    return P, Qp


def replay_group(op, modes, case, seed=0):
    """run the real G1 and G2 code on concrete points of the given relation / representations and compare with the
    affine reference. returns (reproduced?, witness dict)"""
    rnd = random.Random(1234 + seed)
    for F, pfx in ((F1, 'g1'), (F2, 'g2')):
        for s in range(4):
            P, Qp = case_points(F, case, s + seed)
            if op == 'sub':
                Qp = aff_neg(F, Qp)   # the relation is between P and -Q
            J1 = jac(F, P, modes[0], rnd, s)
            env = point_env(F, '1', J1)
            A1 = None if modes[0] == 'o' else P
            A2 = None
            if len(modes) > 1:
                J2 = jac(F, Qp, modes[1], rnd, (s + 1) % 4)
                env.update(point_env(F, '2', J2))
                A2 = None if modes[1] == 'o' else Qp
            task = '%s_%s_%s' % (pfx, op, modes)
            out, err = native_alg(task, env)
            if out is None:
                return False, {'error': err}
            n = F.n
            def pt(o):
                cs = [tuple(o[i * n:(i + 1) * n]) if n == 2 else o[i] for i in range(3)]
                return jac_to_aff(F, tuple(cs))
            bad = None
            if op in ('add', 'sub', 'addassign'):
                want = aff_add(F, A1, aff_neg(F, A2) if op == 'sub' else A2)
                got = pt(out[0:3 * n])
                if got != want:
                    bad = 'result %s, expected %s' % (got, want)
                if op == 'addassign' and pt(out[3 * n:6 * n]) != want:
                    bad = '+= &: wrong result'
            elif op == 'eq':
                want = (A1 == A2)
                if (out[0] == 1) != want:
                    bad = '== returned %s, expected %s' % (out[0] == 1, want)
            elif op == 'double':
                if pt(out[0:3 * n]) != aff_add(F, A1, A1):
                    bad = 'double: wrong result'
            elif op == 'neg':
                if pt(out[0:3 * n]) != aff_neg(F, A1):
                    bad = 'neg: wrong result'
            elif op == 'toaffine':
                got = None if out[0] == 0 else ((tuple(out[1:1 + n]), tuple(out[1 + n:1 + 2 * n])) if n == 2 else (out[1], out[2]))
                if got != A1:
                    bad = 'to_affine: %s, expected %s' % (got, A1)
            elif op == 'iszero':
                if (out[0] == 1) != (A1 is None):
                    bad = 'is_zero wrong'
            if bad:
                return True, {'task': task, 'inputs': {k: '%064x' % v for k, v in env.items()}, 'relation': case, 'native_output': ['%064x' % x for x in out], 'mismatch': bad}
    return False, {}


def replay_tower(task, env, spec_polys, n_out):
    """env: {var: int}; spec_polys: expected output polynomials (evaluated at env)"""
    out, err = native_alg(task, env)
    if out is None:
        return False, {'error': err}
    want = [p.eval(env) for p in spec_polys]
    if out[:len(want)] != want:
        return True, {'task': task, 'inputs': {k: '%064x' % v for k, v in env.items()}, 'native_output': ['%064x' % x for x in out], 'expected': ['%064x' % x for x in want]}
    return False, {}


def replay_wrap(entry, modes):
    """native: the entry point on representatives of the given kinds vs the value on normalised inputs / one"""
    exe = kani.build_replay('release')
    if not exe:
        return False, {'error': 'replay build failed'}
    p = subprocess.run([exe, '--wrap', entry, modes], capture_output=True, text=True, timeout=600)
    out = (p.stdout + p.stderr).strip()
    if 'MISMATCH' in out or 'PANIC' in out:
        return True, {'entry': entry, 'modes': modes, 'mismatch': out.splitlines()[-1][:300]}
    return False, {'note': out[-200:]}


def replay_sqrt(family):
    """native Fq2::sqrt on concrete members of the family; squares must give Some(s) with s^2 = x"""
    import random
    r = random.Random(5)
    half = (Q - 1) // 2
    cands = []
    if family in ('fq2_sqrt_of_real', 'general'):
        for a in (Q - 1, 2, 4, Q - 4, 3, Q - 3, 5, half, half + 1, r.randrange(1, Q), r.randrange(1, Q)):
            cands.append(('fq2_sqrt_of_real', {'a': a}, True, (a, 0)))
    if family in ('fq2_sqrt_of_square', 'general'):
        for _ in range(6):
            c0, c1 = r.randrange(1, Q), r.randrange(1, Q)
            cands.append(('fq2_sqrt_of_square', {'c00': c0, 'c01': c1, 'c0': c0, 'c1': c1}, True, F2.mul((c0, c1), (c0, c1))))
    if family == 'fq2_sqrt_of_imag':
        for _ in range(4):
            b = r.randrange(1, Q)
            cands.append(('fq2_sqrt_of_imag', {'b': b}, False, (0, b)))
    for task, env, expect_some, x in cands:
        out, err = native_alg(task, env)
        if out is None:
            return False, {'error': err}
        some = out[0] == 1
        if some:
            s = (out[1], out[2])
            if F2.mul(s, s) != x:
                return True, {'task': task, 'inputs': {k: '%064x' % v for k, v in env.items()}, 'mismatch': 'sqrt returned s with s*s != x'}
        if some != expect_some:
            return True, {'task': task, 'inputs': {k: '%064x' % v for k, v in env.items()}, 'mismatch': 'Fq2::sqrt returned %s for x = %s' % ('Some' if some else 'None', ['%x' % c for c in x])}
    return False, {}


def replay_smul(scalars):
    """native P*k (P = 3G, normalised and not) against the affine double-and-add reference, G1 and G2"""
    exe = kani.build_replay('release')
    if not exe:
        return False, {'error': 'replay build failed'}
    cat = [0, 1, 2, 3, RORD - 1, RORD - 2, (RORD + 1) // 2, 1 << 64, (1 << 64) - 1, (1 << 128) + 5, (1 << 192) + (1 << 64) - 1, 1 << 255 if (1 << 255) < RORD else 1 << 254,
           0x8000000000000000, (1 << 200) + 1, 0xFFFFFFFFFFFFFFFF0000000000000000FFFFFFFFFFFFFFFF]
    ks = [k % RORD for k in list(scalars) + cat]
    for k in ks:
        for F, g in ((F1, 'g1'), (F2, 'g2')):
            G = (G1X, G1Y) if g == 'g1' else (G2X, G2Y)
            P = aff_mul(F, G, 3)
            want = aff_mul(F, P, k) if k else None
            for mode in ('j', 'a'):
                p = subprocess.run([exe, '--smul', g, mode, '%064x' % k], capture_output=True, text=True, timeout=120)
                out = p.stdout.strip().splitlines()
                if not out:
                    return False, {'error': 'no output ' + p.stderr[-200:]}
                if 'MISMATCH' in out[0]:
                    return True, {'group': g, 'scalar': '%064x' % k, 'mismatch': out[0]}
                got = None
                if out[-1] != 'INF':
                    b = bytes.fromhex(out[-1])
                    n = 32 * F.n
                    if F.n == 1:
                        got = (int.from_bytes(b[0:32], 'big'), int.from_bytes(b[32:64], 'big'))
                    else:
                        got = ((int.from_bytes(b[32:64], 'big'), int.from_bytes(b[0:32], 'big')), (int.from_bytes(b[96:128], 'big'), int.from_bytes(b[64:96], 'big')))
                if got != want:
                    return True, {'group': g, 'representation': mode, 'scalar': '%064x' % k, 'mismatch': 'P*k differs from the k-fold sum of P (affine double-and-add reference)'}
    return False, {}


def replay_pow(scalars=()):
    """native a^k for Fr / Fq (public pow) and Gt::pow against Python pow / repeated squaring, structured exponents"""
    exe = kani.build_replay('release')
    if not exe:
        return False, {'error': 'replay build failed'}
    cat = [0, 1, 2, 3, 1 << 64, (1 << 64) - 1, (1 << 128) + 5, (1 << 192) + (1 << 64) - 1, RORD - 1, 0x8000000000000000, 0xFFFFFFFFFFFFFFFF0000000000000000FFFFFFFFFFFFFFFF]
    for k in list(scalars) + cat:
        for fld, p in (('fr', RORD), ('fq', Q)):
            kk = k % p
            a = 0x1234567890ABCDEF1234567890ABCDEF % p
            r = subprocess.run([exe, '--pow', fld, '%064x' % a, '%064x' % kk], capture_output=True, text=True, timeout=120).stdout.strip()
            if not r:
                return False, {'error': 'no output'}
            if int(r, 16) != pow(a, kk, p):
                return True, {'field': fld, 'base': '%064x' % a, 'exponent': '%064x' % kk, 'mismatch': '%s::pow differs from integer exponentiation mod p' % fld.capitalize()}
        kk = k % RORD
        r = subprocess.run([exe, '--pow', 'gt', '', '%064x' % kk], capture_output=True, text=True, timeout=300).stdout.strip()
        if 'MISMATCH' in r:
            return True, {'field': 'gt', 'exponent': '%064x' % kk, 'mismatch': r[:200]}
    return False, {}


def replay_finalexp():
    """native: a wrong final exponentiation shows as pairing(G1, G2)^r != 1 or as pairing != fast_pairing"""
    exe = kani.build_replay('release')
    if not exe:
        return False, {'error': 'replay build failed'}
    p = subprocess.run([exe, '--finalexp'], capture_output=True, text=True, timeout=600)
    out = (p.stdout + p.stderr).strip()
    if 'MISMATCH' in out or 'PANIC' in out:
        return True, {'mismatch': out.splitlines()[-1][:300]}
    return False, {'note': out[-200:]}
