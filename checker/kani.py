"""Engine K: run Kani proof harnesses of /verif/kani over the real crate; replay counterexamples natively."""
import os, re, json, time, shutil, subprocess
from common import *

KDIR = os.path.join(VERIF, 'kani')


def _prep():
    lock = os.path.join(REPO, 'Cargo.lock')
    if os.path.exists(lock):
        shutil.copy(lock, os.path.join(KDIR, 'Cargo.lock'))


def ksrc_hash(harness=None):
    """hash of the harness sources a given harness depends on (its module, common.rs, and lin.rs for conv)"""
    import hashlib
    mod = (harness or '').split('::')[0]
    files = {'lin': ['common.rs', 'lin.rs'], 'conv': ['common.rs', 'lin.rs', 'conv.rs'], 'dec': ['common.rs', 'dec.rs'], 'toy': ['common.rs', 'toy.rs']}.get(mod)
    if not files:
        return dir_hash(os.path.join(KDIR, 'src'))
    h = hashlib.sha256()
    for f in files + ['../Cargo.toml']:
        h.update(open(os.path.join(KDIR, 'src', f), 'rb').read())
    return h.hexdigest()[:16]


def parse_log(text):
    """-> {qualified harness: {status, seconds, failed:[...], covers:(sat,total)}}"""
    res = {}
    cur = {}  # thread -> harness
    lines = text.splitlines()
    i = 0
    single = None
    while i < len(lines):
        ln = lines[i]
        m = re.match(r'^(?:Thread (\d+): )?Checking harness ([\w:]+)\.\.\.', ln)
        if m:
            th = m.group(1) or 's'
            cur[th] = m.group(2)
            i += 1
            continue
        m = re.match(r'^Thread (\d+):\s*$', ln)
        th = None
        if m:
            th = m.group(1)
        elif ln.startswith('VERIFICATION RESULT:') or ln.startswith('RESULTS:') or ln.startswith('SUMMARY:'):
            th = 's'
        if th is not None and th in cur:
            # block until "Verification Time"
            j = i
            block = []
            while j < len(lines):
                block.append(lines[j])
                if lines[j].startswith('Verification Time:') or re.match(r'^Thread \d+: Checking', lines[j]) and j > i:
                    break
                j += 1
            b = '\n'.join(block)
            h = cur[th]
            if 'VERIFICATION:-' in b:
                r = res.setdefault(h, {'failed': [], 'covers': None})
                r['status'] = 'SUCCESSFUL' if 'VERIFICATION:- SUCCESSFUL' in b else 'FAILED'
                mt = re.search(r'Verification Time: ([\d.]+)s', b)
                r['seconds'] = float(mt.group(1)) if mt else 0.0
                r['failed'] += re.findall(r'Failed Checks: (.*)', b)
                mc = re.search(r'(\d+) of (\d+) cover properties satisfied', b)
                if mc:
                    r['covers'] = (int(mc.group(1)), int(mc.group(2)))
                if 'CBMC failed' in b or 'Status: ERROR' in b or 'out of memory' in b.lower() or 'timed out' in b.lower():
                    r['status'] = 'ERROR'
                i = j + 1
                continue
        i += 1
    return res


def _one(h, timeout_s, tag, mem_gb):
    log = os.path.join(workdir('logs'), 'kani-%s-%s-%d.log' % (tag, h.replace(':', '_'), os.getpid()))
    cmd = ['cargo', 'kani', '-Z', 'stubbing', '--output-format', 'terse',
           '--target-dir', os.path.join(WORK, 'kani-target'), '--exact', '--harness', h]
    rc, secs = run(cmd, log, timeout=timeout_s, cwd=KDIR, mem_gb=mem_gb)
    text = open(log, errors='replace').read()
    res = parse_log(text).get(h)
    if rc == 'timeout':
        res = {'status': 'TIMEOUT', 'seconds': secs, 'failed': [], 'covers': None}
    return h, res, log, text


def run_harnesses(harnesses, timeout_s, tag, pool=None, mem_gb=14):
    """one `cargo kani --exact --harness H` process per harness (own driver, own log), `pool` at a time.
    (`cargo kani -j N` keeps every CBMC trace in one driver process: 15-20 GB RSS, OOM-killed here.)"""
    from concurrent.futures import ThreadPoolExecutor
    _prep()
    blog = os.path.join(workdir('logs'), 'kani-build-%s-%d.log' % (tag, os.getpid()))
    with Lock('kani-build'):
        rc, _ = run(['cargo', 'kani', '-Z', 'stubbing', '--only-codegen', '--target-dir', os.path.join(WORK, 'kani-target')],
                    blog, timeout=1800, cwd=KDIR)
    btext = open(blog, errors='replace').read()
    build_failed = rc != 0 or ('error: could not compile' in btext) or ('error[E' in btext)
    res = {}
    if build_failed:
        return res, blog, True, rc
    pool = pool or max(1, min(NCPU - 2, 12))
    with ThreadPoolExecutor(max_workers=pool) as ex:
        for h, r, log, text in ex.map(lambda h: _one(h, timeout_s, tag, mem_gb), harnesses):
            if r is not None:
                r['log'] = log
                res[h] = r
    return res, blog, False, 0


def concrete_values(harness, timeout_s):
    """re-run one failing harness with concrete playback and return the byte vectors"""
    _prep()
    log = os.path.join(workdir('logs'), 'kani-cp-%s-%d.log' % (harness.replace(':', '_'), os.getpid()))
    cmd = ['cargo', 'kani', '-Z', 'stubbing', '-Z', 'concrete-playback', '--concrete-playback', 'print',
           '--target-dir', os.path.join(WORK, 'kani-target'), '--exact', '--harness', harness]
    run(cmd, log, timeout=timeout_s + 600, cwd=KDIR)
    text = open(log, errors='replace').read()
    m = re.search(r'let concrete_vals: Vec<Vec<u8>> = vec!\[(.*?)\];', text, re.S)
    if not m:
        return None, log
    vals = []
    for v in re.findall(r'vec!\[([\d,\s]*)\]', m.group(1)):
        vals.append([int(x) for x in v.replace(' ', '').split(',') if x != ''])
    return vals, log


def build_replay(profile):
    """native build of the harness crate (no stubs: the real kernels run)"""
    _prep()
    tdir = os.path.join(WORK, 'replay-target')
    log = os.path.join(workdir('logs'), 'replay-build-%s.log' % profile)
    cmd = ['cargo', 'build', '--offline', '--bin', 'replay', '--target-dir', tdir]
    if profile == 'release':
        cmd.append('--release')
    with Lock('replay-build-' + profile):
        rc, _ = run(cmd, log, timeout=1200, cwd=KDIR)
    exe = os.path.join(tdir, 'release' if profile == 'release' else 'debug', 'replay')
    return exe if rc == 0 and os.path.exists(exe) else None


def native_replay(flatname, vals):
    """-> {profile: (code, output)}; code 0 ok, 1 violation reproduced, 3 assumption failed"""
    out = {}
    hexs = ','.join(''.join('%02x' % b for b in v) for v in vals)
    for profile in ('dev', 'release'):
        exe = build_replay(profile)
        if not exe:
            out[profile] = (99, 'replay build failed')
            continue
        try:
            p = subprocess.run([exe, flatname, hexs], capture_output=True, text=True, timeout=600)
            out[profile] = (p.returncode, (p.stdout + p.stderr)[-2000:])
        except subprocess.TimeoutExpired:
            out[profile] = (98, 'replay timeout')
    return out


SLOW_HARNESSES = {'k_dec_g2_compressed': 860, 'k_conv_from_str_fq': 700, 'k_conv_from_str_fr': 700, 'k_dec_g2_uncompressed': 640,
                  'k_dec_g2_raw': 640, 'k_dec_g1_compressed': 540, 'k_conv_fq2_from_slice': 510}


def decide(pid, specs, tier, timeout_s=None, pool=None):
    """specs: list of dict(harness=qualified, statement, functions, bounds, assumptions, [known_ok]).
    Returns list of Obl with verdicts; violations are replayed natively before being reported."""
    if 'K' not in os.environ.get('VERIF_ENGINES', 'KLA'):
        return []   # experimentation only (seeded-change triage): never set by the registered commands
    timeout_s = timeout_s or (900 if tier == 'quick' else 3600)
    if tier == 'quick':
        # the quick tier must finish within minutes on a CHANGED tree (nothing cached): harnesses that need more than
        # ~8 min of CBMC are decided in the thorough tier only and are listed under not_covered in the quick evidence
        import common as _c
        keep = []
        for s in specs:
            n_ = s['harness'].split('::')[-1]
            if n_ in SLOW_HARNESSES:
                _c.QUICK_SKIPPED.append('K %s (~%d s of CBMC)' % (n_, SLOW_HARNESSES[n_]))
            else:
                keep.append(s)
        specs = keep
        timeout_s = min(timeout_s, 700)
    th = tree_hash()
    obls = []
    todo = []
    for s in specs:
        o = Obl(s['harness'].split('::')[-1], 'K', s['statement'], s.get('functions'),
                s.get('bounds', ''), s.get('assumptions', []))
        o.harness = s['harness']
        key = 'K|%s|%s|%s' % (th, ksrc_hash(s['harness']), s['harness'])
        o.key = key
        c = cache_get(key)
        if c and c.get('status') == 'proved':
            o.status, o.seconds, o.detail, o.vacuity, o.cached = 'proved', c['seconds'], c.get('detail', ''), c.get('vacuity'), True
            o.queries = 1
        else:
            todo.append(o)
        obls.append(o)
    if todo:
        res, log, build_failed, rc = run_harnesses([o.harness for o in todo], timeout_s, pid, pool=pool)
        for o in todo:
            o.queries = 1
            r = res.get(o.harness)
            if build_failed or r is None or r.get('status') not in ('SUCCESSFUL', 'FAILED'):
                o.status = 'inconclusive'
                o.detail = 'build failed' if build_failed else ('no verdict (timeout / out of memory / error), see %s' % log)
                continue
            o.seconds = r['seconds']
            cv = r.get('covers')
            o.vacuity = 'reachable' if (cv and cv[0] == cv[1] and cv[1] > 0) else ('covers %s' % (cv,))
            if r['status'] == 'SUCCESSFUL':
                if cv and cv[0] == cv[1] and cv[1] > 0:
                    o.status = 'proved'
                    o.detail = 'VERIFICATION SUCCESSFUL, unwinding assertions on, %d/%d covers satisfied' % cv
                    cache_put(o.key, {'status': 'proved', 'seconds': o.seconds, 'detail': o.detail, 'vacuity': o.vacuity})
                else:
                    o.status = 'inconclusive'
                    o.detail = 'verified but vacuity witness not reachable: covers=%s' % (cv,)
            else:
                o.failed_checks = r['failed']
                o.status = 'violated-unreplayed'
                o.detail = '; '.join(r['failed'])[:500]
        # replay the failures (in parallel: a concrete-playback run costs as much as the verification itself)
        def replay_one(o):
            if o.status != 'violated-unreplayed':
                return
            if all(('unwinding assertion' in f) for f in o.failed_checks) and o.failed_checks:
                o.status = 'inconclusive'
                o.detail = 'unwinding assertion failed (bound too small for this tree): ' + o.detail
                return
            vals, cplog = concrete_values(o.harness, timeout_s)
            if vals is None:
                o.status = 'inconclusive'
                o.detail = 'Kani reported a failure but no concrete values could be extracted (%s): %s' % (cplog, o.detail)
                return
            rp = native_replay(o.name, vals)
            path = write_replay(pid, o.name, {
                'property': pid, 'engine': 'K', 'harness': o.harness, 'failed_checks': o.failed_checks,
                'inputs_le_bytes': vals, 'native_replay': {k: {'exit': v[0], 'output': v[1]} for k, v in rp.items()},
                'how_to_replay': './check %s --replay <this file>' % pid})
            o.witness = path
            codes = [v[0] for v in rp.values()]
            if any(c == 1 for c in codes):
                o.status = 'violated'
                which = [k for k, v in rp.items() if v[0] == 1]
                o.detail = 'reproduced natively on the real code (%s): %s' % (','.join(which), o.detail)
            else:
                o.status = 'inconclusive'
                o.detail = 'solver counterexample did NOT reproduce natively (codes %s) - encoding/stub issue: %s' % (codes, o.detail)
        failing = [o for o in todo if o.status == 'violated-unreplayed']
        if failing:
            build_replay('dev')
            build_replay('release')
            from concurrent.futures import ThreadPoolExecutor
            with ThreadPoolExecutor(max_workers=pool or 6) as ex:
                list(ex.map(replay_one, failing))
    return obls
