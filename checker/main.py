"""Driver: ./check <ID> [--tier quick|thorough] [--replay path]. See DESIGN.md section 1.1."""
import sys, os, time, json, argparse
sys.path.insert(0, os.path.dirname(os.path.abspath(__file__)))
from common import *
from props import match_known as _mk
import props


def main():
    ap = argparse.ArgumentParser()
    ap.add_argument('pid')
    ap.add_argument('--tier', default=os.environ.get('VERIF_TIER', 'quick'), choices=['quick', 'thorough'])
    ap.add_argument('--replay', default=None)
    a = ap.parse_args()
    pid = a.pid.upper()
    if pid not in props.PROPS:
        print('unknown or unclaimed property', pid)
        sys.exit(2)
    if a.replay:
        sys.exit(props.replay(pid, a.replay))
    t0 = time.time()
    spec = props.PROPS[pid]
    print('[check] %s tier=%s seed=%d tree=%s' % (pid, a.tier, SEED, tree_hash()), flush=True)
    obls = spec['run'](a.tier)
    viol, inconc = [], []
    for o in obls:
        if o.status == 'violated':
            k = _mk(pid, o)
            if k:
                o.status = 'known'
                print('KNOWN-FINDING: property=%s %s' % (pid, k.get('what', o.name)), flush=True)
            else:
                viol.append(o)
        elif o.status != 'proved':
            inconc.append(o)
    wall = time.time() - t0
    try:
        import lengine
        extra_nc = ['budget not met, withdrawn from the claim: ' + x for x in lengine.BUDGET_NOT_MET]
    except Exception:
        extra_nc = []
    import common as _c
    extra_nc += ['decided in the thorough tier only (above the quick tier\'s time budget): ' + x for x in sorted(set(_c.QUICK_SKIPPED))]
    ev = write_evidence(pid, a.tier, spec['level'], obls, wall, spec['trusted_base'], spec['not_covered'] + extra_nc,
                        './check %s --tier %s' % (pid, a.tier), spec.get('explanation', ''))
    for o in obls:
        print('  [%s] %-12s %-44s %7.1fs %s' % (o.engine, o.status, o.name, o.seconds, (o.detail or '')[:110]), flush=True)
    print('[check] %s: %d obligations, %d discharged, %d violated, %d inconclusive, wall %.0fs, evidence %s' % (
        pid, len(obls), sum(1 for o in obls if o.status in ('proved', 'known')), len(viol), len(inconc), wall, ev), flush=True)
    for o in viol:
        print('VIOLATION property=%s replay=%s' % (pid, o.witness), flush=True)
    if viol:
        sys.exit(1)
    if inconc:
        print('INCONCLUSIVE property=%s obligations=%s' % (pid, ','.join(o.name for o in inconc)), flush=True)
        sys.exit(2)
    sys.exit(0)


if __name__ == '__main__':
    main()
