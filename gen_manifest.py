#!/usr/bin/env python3
"""Generates MANIFEST.json from checker/manifest_data.py (single source of truth)."""
import json, sys, os
sys.path.insert(0, os.path.join(os.path.dirname(os.path.abspath(__file__)), 'checker'))
from manifest_data import CHECKS, NOT_APPLICABLE, HOOK_COMMITS
allp = [json.loads(l)['id'] for l in open(os.path.join(os.path.dirname(os.path.abspath(__file__)), 'properties.jsonl'))]
m = {
 "version": 1,
 "setup_cmd": "./setup",
 "hooks": {"guard": "john_yu_sm9_core_verif", "enable": "RUSTFLAGS=\"--cfg john_yu_sm9_core_verif\" (set by ./check for every build of /repo)",
           "baseline_off_cmd": "cd /repo && cargo test --workspace --no-fail-fast --offline",
           "source_commits": HOOK_COMMITS, "add_only": True},
 "engines": [
  {"name": "K", "path": "kani/", "serves_properties": sorted(p for p, c in CHECKS.items() if 'K' in c['engine']), "kind_free_text": "Kani 0.68 / CBMC 6.11 proof harnesses over the real crate (path dependency on /repo); counterexamples replayed natively by the same harness bodies"},
  {"name": "L", "path": "llir/", "serves_properties": sorted(p for p, c in CHECKS.items() if 'L' in c['engine']), "kind_free_text": "own translator: release LLVM IR of the crate -> SMT (linear integer arithmetic + uninterpreted 64x64 product), z3"},
  {"name": "A", "path": "alg/", "serves_properties": sorted(p for p, c in CHECKS.items() if 'A' in c['engine']), "kind_free_text": "real tower/group/pairing source compiled against a symbolic base field; polynomial identities mod q decided by z3"},
 ],
 "checks": [],
 "not_applicable": [],
 "notes": "Solver-based checking of the real code; every verdict is a solver verdict over symbolic inputs within stated bounds. See DESIGN.md.",
}
_T = " Tiers: the quick tier is sized to finish within minutes on a CHANGED tree (nothing cached) and leaves to the thorough tier the obligations that need more than ~8 min of solver time: %s; they are listed under not_covered in the quick-tier evidence. The thorough tier decides everything."
TIER_NOTE = {
 "C06": _T % "L-sq-q, L-sq-r (U256::square on the release IR)",
 "C07": _T % "L-sq-q/r range goals, k_conv_from_str_fq/fr, k_conv_fq2_from_slice",
 "C08": _T % "k_dec_g1_compressed, k_dec_g2_raw, k_dec_g2_uncompressed, k_dec_g2_compressed (the quick tier keeps k_dec_g1_raw, k_dec_g1_uncompressed and all six length harnesses)",
 "C09": _T % "the decoder funnel harnesses k_dec_g1_compressed and k_dec_g2_*",
 "C12": _T % "k_conv_fq2_from_slice (content harness; the length harness stays)",
 "C13": _T % "k_conv_from_str_fq/fr, k_conv_fq2_from_slice",
 "C17": _T % "L-sop4 (sum_of_products::<4> on the release IR, 120 paths)",
 "C18": _T % "k_dec_g1_compressed, k_dec_g2_*, k_conv_fq2_from_slice",
}
for p in allp:
    if p in CHECKS:
        c = CHECKS[p]
        m["checks"].append({
            "property_id": p, "quick_cmd": "./check %s --tier quick" % p, "thorough_cmd": "./check %s --tier thorough" % p,
            "evidence_file": "evidence/%s.json" % p, "replay_cmd_template": "./check %s --replay {path}" % p,
            "engine": c['engine'], "level_claimed": {"category": c.get('category', 'proof'), "text": c['text'], "design_ref": c['design_ref']},
            "level_note": c['note'] + TIER_NOTE.get(p, ''), "technique": c['technique']})
    else:
        m["not_applicable"].append({"property_id": p, "reason": NOT_APPLICABLE[p]})
json.dump(m, open(os.path.join(os.path.dirname(os.path.abspath(__file__)), 'MANIFEST.json'), 'w'), indent=1)
print("MANIFEST.json written:", len(m['checks']), "checks,", len(m['not_applicable']), "not applicable")
