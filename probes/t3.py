# Probe: can z3 (LIA+UF) prove Montgomery mul (U256::mul structure) correct?  Hand model of the IR semantics.
import time
from z3 import *
W=2**64
FQ=[0xE56F9B27E351457D,0x21F2934B1A7AEEDB,0xD603AB4FF58EC745,0xB640000002A3A6F1]
INV=0x892BC42C2F2EE42B
P=sum(FQ[i]<<(64*i) for i in range(4)); R=2**256
M=Function('M',IntSort(),IntSort(),IntSort())
s=Solver()
a=[Int('a%d'%i) for i in range(4)]; b=[Int('b%d'%i) for i in range(4)]
for v in a+b: s.add(v>=0,v<W)
cnt=[0]
def split(t,name):
    cnt[0]+=1
    lo=Int('%s_lo%d'%(name,cnt[0])); hi=Int('%s_hi%d'%(name,cnt[0]))
    s.add(lo>=0,lo<W,hi>=0,t==lo+W*hi)
    return lo,hi
r=[IntVal(0)]*8
prods={}
for i in range(4):
    carry=IntVal(0)
    for j in range(4):
        m=M(a[i],b[j]); prods[(i,j)]=m
        s.add(m>=0,m<=(W-1)*(W-1))
        lo,hi=split(r[i+j]+m+carry,'p')
        s.add(hi<W)  # to be proven really; here derived: r+m+c <= W-1+(W-1)^2+W-1 = W^2-1
        r[i+j]=lo; carry=hi
    r[4+i]=carry
T=sum(r[k]*W**k for k in range(8))
Tspec=sum(prods[(i,j)]*W**(i+j) for i in range(4) for j in range(4))
s.push(); s.add(T!=Tspec); t=time.time(); print('product phase',s.check(),time.time()-t); s.pop()
# reduction phase on arbitrary T limbs (fresh), constants
s2=Solver()
r=[Int('t%d'%i) for i in range(8)]
for v in r: s2.add(v>=0,v<W)
T=sum(r[k]*W**k for k in range(8))
s=s2
ks=[]
carry2=IntVal(0)
for i in range(4):
    k=Int('k%d'%i); q=Int('kq%d'%i); s.add(k>=0,k<W,r[i]*INV==k+W*q)
    ks.append(k)
    lo,carry=split(r[i]+k*FQ[0],'d')
    lo0=lo
    for j in range(1,4):
        lo,carry=split(r[i+j]+k*FQ[j]+carry,'m')
        r[i+j]=lo
    lo,carry2=split(r[4+i]+carry+carry2,'c')
    r[4+i]=lo
res=sum(r[4+k]*W**k for k in range(4))+carry2*R
K=sum(ks[i]*W**i for i in range(4))
s.push(); s.add(res*R!=T+K*P); t=time.time(); print('reduction phase',s.check(),time.time()-t); s.pop()
