q=0xB640000002A3A6F1D603AB4FF58EC74521F2934B1A7AEEDBE56F9B27E351457D
r=0xB640000002A3A6F1D603AB4FF58EC74449F2934B18EA8BEEE56EE19CD69ECF25
S=0x600000000058F98A; A2=0xd8000000019062ed0000b98b0cb27659; A3=0x2400000000215d941
N=q**12-1
assert N%r==0
target=N//r
first=(q**6-1)*(q**2+1)
# GmSSL chain
d=-A3*(q+1); e=-A3*(q+2); l=4+e+9*(1+q); n=d+2*q; p=q*q+n
last1=q**3+A2*p+l
E1=(first*last1)%N
print('final_exponentiation == target:',E1==target%N, ' hard part expected', (q**4-q**2+1)%r==0, (first*((q**4-q*q+1)//r))%N==target)
print('last1 == (q^4-q^2+1)/r ?', last1==(q**4-q*q+1)//r, ' ratio mod', (last1*r-(q**4-q*q+1)))
# MIRACL chain final_exp_last_chunk, y input exponent 1; track exponents
t1=-S            # self.pow(S).inverse
t0=q             # frob1
x0=q*q           # frob2
x1=q**6
x3=t1*q
x4=t1
x0=x0+(1+t0)     # x0 *= self * t0
x0=x0*q
x5=t1*S
t1=-x5
x4=x4+(-(t1*q))  # x4 *= t1.frob(1).inverse()
x2=t1*q*q
t0=-(t1*S)
t1=t0*q
t0=t0+t1
t0=2*t0
t0=t0+(x4+x5)
t1=x3+x5
t1=t1+t0
t0=t0+x2
t1=2*t1
t1=t1+t0
t1=2*t1
t0=t1+x1
t1=t1+x0
t0=2*t0
last2=t0+t1
E2=(first*last2)%N
print('final_exp == target:',E2==target%N)
import math
print('E2 == k*target mod N for small k?', [k for k in range(1,50) if (k*target-E2)%N==0])
print('t consistent: 36t^4+36t^3+24t^2+6t+1==q', 36*S**4+36*S**3+24*S**2+6*S+1==q, ' 6t+2', hex(6*S+2))
