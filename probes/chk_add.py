import json, re, sys, time
from z3 import *
q=0xB640000002A3A6F1D603AB4FF58EC74521F2934B1A7AEEDBE56F9B27E351457D
class Fr_:
    def __init__(s,n,d=1): s.n=n; s.d=d
    def __add__(a,b): return Fr_(a.n*b.d+b.n*a.d,a.d*b.d)
    def __sub__(a,b): return Fr_(a.n*b.d-b.n*a.d,a.d*b.d)
    def __mul__(a,b): return Fr_(a.n*b.n,a.d*b.d)
    def __truediv__(a,b): return Fr_(a.n*b.d,a.d*b.n)
def same(a,b): return (a.n*b.d-b.n*a.d)%q==0   # z3 expr
tot=0
for mode in ['aa','ja','aj','jj']:
  for ln in open('/tmp/probe/leaves_%s.jsonl'%mode):
    leaf=json.loads(ln)
    V={n:Int(n) for n in ['X1','Y1','Z1','X2','Y2','Z2']}
    if mode[0]=='a': V['Z1']=IntVal(1)
    if mode[1]=='a': V['Z2']=IntVal(1)
    sub={}
    kinds=[]
    ident=None
    for a,b,o in leaf['pc']:
        bc=int(b,16) if b.startswith('0x') else None
        if a in ('Z1','Z2') and bc==1 and o: sub[a]=IntVal(1)
        if a in ('Z1','Z2') and bc==0 and o: ident=a
        kinds.append((a[:12],bc,o))
    V.update(sub)
    ev=lambda e: eval(re.sub(r'0x[0-9a-f]+',lambda m:str(int(m.group(0),16)),e),{},dict(V))
    if 'panic' in leaf: print(mode,'PANIC leaf',kinds); continue
    X3,Y3,Z3=[ev(e) for e in leaf['out']]
    x1=Fr_(V['X1'],V['Z1']*V['Z1']); y1=Fr_(V['Y1'],V['Z1']*V['Z1']*V['Z1'])
    x2=Fr_(V['X2'],V['Z2']*V['Z2']); y2=Fr_(V['Y2'],V['Z2']*V['Z2']*V['Z2'])
    zero_dec=[(a,o) for a,b,o in leaf['pc'] if b.startswith('0x') and int(b,16)==0 and a not in('Z1','Z2')]
    t=time.time(); s=Solver()
    if ident:
        other='2' if ident=='Z1' else '1'
        exp=[V['X'+other],V['Y'+other],V['Z'+other]]
        s.add(Or(*[ (a-b)%q!=0 for a,b in zip([X3,Y3,Z3],exp)])); what='identity operand -> returns other'
    elif len([1 for a,o in zero_dec if o])>=2:   # r==0 and h==0 -> doubling of self (which operand is "self" depends on dispatch)
        best=None
        for (xa,ya) in ((x1,y1),(x2,y2)):
            lam=(Fr_(3)*xa*xa)/(Fr_(2)*ya); x3=lam*lam-xa-xa; y3=lam*(xa-x3)-ya
            s2=Solver(); s2.add(Or(Not(same(Fr_(X3,Z3*Z3),x3)),Not(same(Fr_(Y3,Z3*Z3*Z3),y3))))
            r=s2.check()
            if r==unsat: best=unsat
        print(mode,'doubling leaf',best,'%.2fs'%(time.time()-t)); tot+=1; continue
    else:
        lam=(y2-y1)/(x2-x1); x3=lam*lam-x1-x2; y3=lam*(x1-x3)-y1
        s.add(Or(Not(same(Fr_(X3,Z3*Z3),x3)),Not(same(Fr_(Y3,Z3*Z3*Z3),y3)))); what='chord'
    r=s.check(); tot+=1
    print(mode,what,[ (k[0],k[2]) for k in kinds][-2:],r,'%.2fs'%(time.time()-t))
    if r==sat: print('   model',s.model())
print('leaves checked',tot)
