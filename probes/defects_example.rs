use sm9_core::*;
use std::panic::catch_unwind;
fn main() {
    let q = hex!("B640000002A3A6F1D603AB4FF58EC74521F2934B1A7AEEDBE56F9B27E351457D");
    // D6: Fq2::sqrt on real inputs
    let m1 = -Fq::one();
    let x = Fq2::new(m1, Fq::zero());
    println!("D6a sqrt(-1) in Fq2 = {:?}", x.sqrt().is_some());
    println!("    sqrt(-1) in Fq  = {:?}", m1.sqrt().is_some());
    // real non-residue below q/2: 2 is a non-residue (q = 5 mod 8)
    let two = Fq::one() + Fq::one();
    println!("D6b sqrt(2) in Fq = {:?}, in Fq2 = {:?}", two.sqrt().is_some(), Fq2::new(two, Fq::zero()).sqrt().is_some());
    // D4: set_bit
    let mut f = Fr::from_str("0").unwrap();
    f.set_bit(0, true);
    println!("D4 set_bit(0) on 0 -> {:02x?} (expect ..01)", &f.to_slice()[28..]);
    let mut g = Fr::zero();
    for i in 0..256 { g.set_bit(i, true); }
    println!("   all ones raw -> is canonical? to_slice = {:02x?}", &g.to_slice()[..4]);
    println!("   g == g+0 ? {}", g == g + Fr::zero());
    // D1: prefix
    let p = G1::one();
    let mut c = p.to_compressed();
    c[0] = 0x07;
    let r = catch_unwind(|| G1::from_compressed(&c).is_ok());
    println!("D1 from_compressed prefix 0x07 -> {:?}", r);
    c[0] = 0x00;
    let r = catch_unwind(|| G1::from_compressed(&c).map(|g| g == p));
    println!("   prefix 0x00 -> {:?}", r.map(|x| x.ok()));
    // D2: Fq2::from_slice with coordinate >= q
    let mut b = [0xffu8; 64];
    let r = catch_unwind(move || { b[0]=0xff; Fq2::from_slice(&b).is_some() });
    println!("D2 Fq2::from_slice(0xff..) -> {:?}", r);
    let r = catch_unwind(|| G2::from_slice(&[0xffu8; 128]).is_ok());
    println!("   G2::from_slice(0xff..) -> {:?}", r);
    // D3: G1 decoder accepts x+q
    // find k with small x
    let mut k = Fr::one();
    let mut found = false;
    for _ in 0..200 {
        let pt = G1::one() * k;
        let s = pt.to_slice();
        if s[0] < 0x49 {
            // x + q
            let mut xs = [0u8; 32];
            let mut carry = 0u16;
            for i in (0..32).rev() { let t = s[i] as u16 + q[i] as u16 + carry; xs[i] = t as u8; carry = t >> 8; }
            if carry == 0 {
                let mut enc = s; enc[..32].copy_from_slice(&xs);
                let d = G1::from_slice(&enc);
                println!("D3 G1::from_slice(x+q,y) ok={} same_point={:?}", d.is_ok(), d.ok().map(|g| g == pt));
                found = true; break;
            }
        }
        k = k + Fr::one();
    }
    if !found { println!("D3 no small x found"); }
    // D5: pairings with identity
    let o1 = G1::zero(); let o2 = G2::zero();
    let one = Gt::one();
    println!("D5 pairing(O,Q)==1 {}", pairing(o1, G2::one()) == one);
    println!("   pairing(P,O)==1 {}", pairing(G1::one(), o2) == one);
    let r = catch_unwind(|| fast_pairing(G1::zero(), G2::one()) == Gt::one());
    println!("   fast_pairing(O,Q)==1 {:?}", r);
    let r = catch_unwind(|| fast_pairing(G1::one(), G2::zero()) == Gt::one());
    println!("   fast_pairing(P,O)==1 {:?}", r);
    let pm = G1::one() - G1::one();
    let r = catch_unwind(move || fast_pairing(pm, G2::one()) == Gt::one());
    println!("   fast_pairing(P-P,Q)==1 {:?}", r);
    let r = catch_unwind(|| G2Prepared::from(G2::zero()).pairing(&G1::one()) == Gt::one());
    println!("   prepared(O).pairing(P)==1 {:?}", r);
    let r = catch_unwind(|| G2Prepared::from(G2::one()).pairing(&G1::zero()) == Gt::one());
    println!("   prepared(Q).pairing(O)==1 {:?}", r);
}
