# throwaway probe: translate the optimised LLVM IR of U256::mul to z3 Int terms and discharge the Montgomery lemmas
import re, sys, time
from z3 import *

W = 2**64
src = open(sys.argv[1]).read().splitlines()

# ---- parse into blocks
blocks = {}; order = []
cur = None
hdr = src[0]
args = re.findall(r'(ptr|i64|i128|i1|i8)[^,%]*?(%[\w.]+)', hdr[hdr.index('('):])
for ln in src[1:]:
    ln = ln.split(' ;')[0].rstrip() if not ln.startswith('"') else ln
    if not ln.strip() or ln.startswith('}'): continue
    m = re.match(r'^("?[^\s"]+"?):', ln)
    if m and not ln.startswith(' '):
        cur = m.group(1).strip('"'); blocks[cur] = []; order.append(cur); continue
    if cur is None:
        cur = 'entry0'; blocks[cur] = []; order.append(cur)
    blocks[cur].append(ln.strip())
# first block label: the IR prints first label explicitly here (bb12.i.3:)

M = Function('M', IntSort(), IntSort(), IntSort())
solver_axioms = []
mul_apps = {}

def bits(ty): return int(ty[1:])

class Mem:  # object -> {offset: term}
    def __init__(self): self.obj = {}
mem = Mem()

def sym_obj(name, vals): mem.obj[name] = {8*i: v for i, v in enumerate(vals)}

def val(tok, ty, env):
    tok = tok.strip()
    if tok.startswith('%'): return env[tok]
    if tok in ('true', 'false'): return BoolVal(tok == 'true')
    return IntVal(int(tok))

def run(env, ptrs):
    guard = {order[0]: BoolVal(True)}
    edge = {}   # (from,to) -> cond
    ret_guard = None
    for b in order:
        g = guard.get(b, BoolVal(False))
        for ins in blocks[b]:
            m = re.match(r'(%[\w.]+) = (.*)', ins)
            if m:
                dst, rhs = m.group(1), m.group(2)
                op = rhs.split()[0]
                if op == 'tail': rhs = rhs[5:]; op = 'call'
                if op == 'load':
                    mm = re.match(r'load (i\d+), ptr (%[\w.]+)', rhs)
                    o, off = ptrs[mm.group(2)]
                    env[dst] = mem.obj[o][off]
                elif op == 'getelementptr':
                    mm = re.match(r'getelementptr inbounds nuw i8, ptr (%[\w.]+), i64 (\d+)', rhs)
                    o, off = ptrs[mm.group(1)]
                    ptrs[dst] = (o, off + int(mm.group(2)))
                elif op == 'zext':
                    mm = re.match(r'zext (i\d+) (\S+) to (i\d+)', rhs); env[dst] = val(mm.group(2), mm.group(1), env)
                    if mm.group(1) == 'i1': env[dst] = If(env[dst], 1, 0)
                elif op == 'trunc':
                    mm = re.match(r'trunc (?:nuw |nsw )*(i\d+) (\S+) to (i\d+)', rhs)
                    v = val(mm.group(2), mm.group(1), env)
                    env[dst] = (v % 2 == 1) if mm.group(3) == 'i1' else v % (2**bits(mm.group(3)))
                elif op in ('add', 'sub', 'mul', 'and', 'lshr', 'shl', 'or'):
                    mm = re.match(r'\w+ (?:nuw |nsw |samesign |disjoint )*(i\d+) (\S+), (\S+)', rhs)
                    ty = mm.group(1); n = 2**bits(ty)
                    a = val(mm.group(2), ty, env); c = val(mm.group(3), ty, env)
                    if op == 'add': env[dst] = (a + c) % n
                    elif op == 'sub': env[dst] = (a - c) % n
                    elif op == 'mul':
                        if is_int_value(simplify(a)) or is_int_value(simplify(c)):
                            env[dst] = (a * c) % n
                        else:
                            key = tuple(sorted([a.sexpr(), c.sexpr()]))
                            x, y = (a, c) if a.sexpr() <= c.sexpr() else (c, a)
                            t = M(x, y)
                            if key not in mul_apps:
                                mul_apps[key] = t; solver_axioms.append(And(t >= 0, t <= (W-1)*(W-1)))
                            env[dst] = t % n
                    elif op == 'and':
                        cc = simplify(c)
                        assert is_int_value(cc) and (cc.as_long() & (cc.as_long()+1)) == 0, rhs
                        env[dst] = a % (cc.as_long()+1)
                    elif op == 'lshr':
                        env[dst] = a / (2**simplify(c).as_long())
                    else: raise Exception(rhs)
                elif op == 'icmp':
                    mm = re.match(r'icmp (?:samesign )?(\w+) (i\d+) (\S+), (\S+)', rhs)
                    a = val(mm.group(3), mm.group(2), env); c = val(mm.group(4), mm.group(2), env)
                    env[dst] = {'eq': a == c, 'ne': a != c, 'ult': a < c, 'ule': a <= c, 'ugt': a > c, 'uge': a >= c}[mm.group(1)]
                elif op == 'select':
                    mm = re.match(r'select i1 (\S+), (i\d+) (\S+), (i\d+) (\S+)', rhs)
                    env[dst] = If(val(mm.group(1), 'i1', env), val(mm.group(3), mm.group(2), env), val(mm.group(5), mm.group(4), env))
                elif op == 'phi':
                    mm = re.match(r'phi (i\d+) (.*)', rhs)
                    inc = re.findall(r'\[ (\S+), %("?[^\]]+?"?) \]', mm.group(2))
                    t = None
                    for v, pb in inc:
                        pb = pb.strip('"'); vv = val(v, mm.group(1), env)
                        t = vv if t is None else If(edge[(pb, b)], vv, t)
                    env[dst] = t
                elif op == 'call':
                    mm = re.match(r'call \{ i8, i64 \} @llvm\.x86\.(subborrow|addcarry)\.64\(i8 (\S+), i64 (\S+), i64 (\S+)\)', rhs)
                    cin = val(mm.group(2), 'i8', env); a = val(mm.group(3), 'i64', env); c = val(mm.group(4), 'i64', env)
                    cin = If(cin != 0, 1, 0)
                    if mm.group(1) == 'subborrow':
                        d = a - c - cin; env[dst] = (If(d < 0, 1, 0), d % W)
                    else:
                        d = a + c + cin; env[dst] = (If(d >= W, 1, 0), d % W)
                elif op == 'extractvalue':
                    mm = re.match(r'extractvalue \{ i8, i64 \} (%[\w.]+), (\d)', rhs); env[dst] = env[mm.group(1)][int(mm.group(2))]
                else: raise Exception('unhandled ' + ins)
            else:
                if ins.startswith('tail call void @llvm.experimental.noalias'): continue
                if ins.startswith('store'):
                    mm = re.match(r'store (i\d+) (\S+), ptr (%[\w.]+)', ins)
                    o, off = ptrs[mm.group(3)]
                    old = mem.obj[o].get(off)
                    mem.obj[o][off] = val(mm.group(2), mm.group(1), env)  # single path at ret block here
                elif ins.startswith('br i1'):
                    mm = re.match(r'br i1 (\S+), label %("?[^,]+"?), label %("?.+"?)', ins)
                    c = val(mm.group(1), 'i1', env); t1 = mm.group(2).strip('"'); t2 = mm.group(3).strip('"')
                    for tgt, cond in ((t1, c), (t2, Not(c))):
                        e = And(g, cond); edge[(b, tgt)] = e
                        guard[tgt] = Or(guard[tgt], e) if tgt in guard else e
                elif ins.startswith('br label'):
                    tgt = re.match(r'br label %("?.+"?)', ins).group(1).strip('"')
                    edge[(b, tgt)] = g
                    guard[tgt] = Or(guard[tgt], g) if tgt in guard else g
                elif ins.startswith('ret'): pass
                else: raise Exception('unhandled ' + ins)
    return env

FQ = [0xE56F9B27E351457D, 0x21F2934B1A7AEEDB, 0xD603AB4FF58EC745, 0xB640000002A3A6F1]
INV = 0x892BC42C2F2EE42B
P = sum(FQ[i] << (64*i) for i in range(4)); R = 2**256
a = [Int('a%d' % i) for i in range(4)]; b = [Int('b%d' % i) for i in range(4)]
sym_obj('self', a); sym_obj('other', b); sym_obj('modulo', [IntVal(x) for x in FQ])
env = {'%inv': IntVal(INV)}
ptrs = {'%self': ('self', 0), '%other': ('other', 0), '%modulo': ('modulo', 0)}
t0 = time.time()
run(env, ptrs)
print('translated in %.2fs, %d uninterpreted products' % (time.time()-t0, len(mul_apps)))
out = [mem.obj['self'][8*i] for i in range(4)]
OUT = sum(out[i] * W**i for i in range(4))
A = sum(a[i] * W**i for i in range(4)); B = sum(b[i] * W**i for i in range(4))
Tspec = sum(M(*( (a[i], b[j]) if a[i].sexpr() <= b[j].sexpr() else (b[j], a[i]))) * W**(i+j) for i in range(4) for j in range(4))
s = Solver()
for v in a + b: s.add(v >= 0, v < W)
s.add(*solver_axioms)
s.add(A < P, B < P, Tspec <= (P-1)*(P-1))
# goal: OUT < P  and  OUT*R == Tspec (mod P)
s.push(); s.add(Not(OUT < P)); t = time.time(); print('canonical:', s.check(), '%.1fs' % (time.time()-t)); s.pop()
s.push(); s.add((OUT*R - Tspec) % P != 0); t = time.time(); print('montgomery congruence:', s.check(), '%.1fs' % (time.time()-t)); s.pop()
s.push(); s.add((OUT*R - Tspec - 1) % P != 0); t = time.time(); r = s.check(); print('canary (must be sat):', r, '%.1fs' % (time.time()-t)); s.pop()
