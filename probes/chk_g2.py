import json, re, sys, time
from z3 import *
q=0xB640000002A3A6F1D603AB4FF58EC74521F2934B1A7AEEDBE56F9B27E351457D
class F2:  # Fq2 element with z3 Int components, u^2=-2
    def __init__(s,a,b=0): s.a=a; s.b=b
    def __add__(x,y): return F2(x.a+y.a,x.b+y.b)
    def __sub__(x,y): return F2(x.a-y.a,x.b-y.b)
    def __mul__(x,y): return F2(x.a*y.a-2*x.b*y.b, x.a*y.b+x.b*y.a)
class Fr_:
    def __init__(s,n,d=None): s.n=n; s.d=d if d is not None else F2(1,0)
    def __add__(a,b): return Fr_(a.n*b.d+b.n*a.d,a.d*b.d)
    def __sub__(a,b): return Fr_(a.n*b.d-b.n*a.d,a.d*b.d)
    def __mul__(a,b): return Fr_(a.n*b.n,a.d*b.d)
    def __truediv__(a,b): return Fr_(a.n*b.d,a.d*b.n)
def same(a,b):
    d=a.n*b.d-b.n*a.d
    return And(d.a%q==0,d.b%q==0)
names=[p+c for p in ['X1','Y1','Z1','X2','Y2','Z2'] for c in 'ab']
V={n:Int(n) for n in names}
leaf=None
for ln in open('/tmp/probe/leaves_g2.jsonl'):
    l=json.loads(ln)
    if 'out' in l and all(not o for a,b,o in l['pc']): leaf=l; break
print('decisions on generic leaf:',len(leaf['pc']))
ev=lambda e: eval(re.sub(r'0x[0-9a-f]+',lambda m:str(int(m.group(0),16)),e),{},dict(V))
t=time.time(); o=[ev(e) for e in leaf['out']]; print('eval %.1fs'%(time.time()-t))
X3=F2(o[0],o[1]);Y3=F2(o[2],o[3]);Z3=F2(o[4],o[5])
g=lambda n:F2(V[n+'a'],V[n+'b'])
x1=Fr_(g('X1'),g('Z1')*g('Z1')); y1=Fr_(g('Y1'),g('Z1')*g('Z1')*g('Z1'))
x2=Fr_(g('X2'),g('Z2')*g('Z2')); y2=Fr_(g('Y2'),g('Z2')*g('Z2')*g('Z2'))
lam=(y2-y1)/(x2-x1); x3=lam*lam-x1-x2; y3=lam*(x1-x3)-y1
s=Solver(); s.add(Not(same(Fr_(X3,Z3*Z3),x3)))
t=time.time(); print('x3 chord (flat G2, 12 vars):',s.check(),'%.1fs'%(time.time()-t)); sys.stdout.flush()
s=Solver(); s.add(Not(same(Fr_(Y3,Z3*Z3*Z3),y3)))
t=time.time(); print('y3 chord:',s.check(),'%.1fs'%(time.time()-t))
