// PROBE: symbolic stand-in for fields::fp::Fq — terms in a global hash-consed arena
use crate::{fields::fp::Fq as CFq, fields::FieldElement, u256::U256, One, Zero};
use alloc::{collections::BTreeMap, string::String, vec::Vec, format};
use core::ops::{Add, AddAssign, Mul, MulAssign, Neg, Sub, SubAssign};
use rand::Rng;
extern crate std;
use std::sync::Mutex;

#[derive(Clone, PartialEq, Eq, PartialOrd, Ord, Debug)]
pub enum Node { Var(String), Const([u64; 4]), Add(u32, u32), Sub(u32, u32), Mul(u32, u32), Neg(u32), Inv(u32) }

pub struct Arena { pub nodes: Vec<Node>, pub index: BTreeMap<Node, u32>,
    pub prefix: Vec<bool>, pub log: Vec<(u32, u32, bool)> }
pub static ARENA: Mutex<Arena> = Mutex::new(Arena { nodes: Vec::new(), index: BTreeMap::new(), prefix: Vec::new(), log: Vec::new() });

fn craw(c: &CFq) -> [u64; 4] { let r = c.raw(); [r[0], r[1], r[2], r[3]] }
fn cfq(l: [u64; 4]) -> CFq { CFq(U256::from(l)) }
fn mk(n: Node) -> Fq {
    let mut a = ARENA.lock().unwrap();
    if let Some(i) = a.index.get(&n) { return Fq(*i); }
    let i = a.nodes.len() as u32; a.nodes.push(n.clone()); a.index.insert(n, i); Fq(i)
}
fn node(i: u32) -> Node { ARENA.lock().unwrap().nodes[i as usize].clone() }
fn as_const(i: u32) -> Option<CFq> { if let Node::Const(l) = node(i) { Some(cfq(l)) } else { None } }
pub fn var(name: &str) -> Fq { mk(Node::Var(String::from(name))) }
pub fn konst(c: CFq) -> Fq { mk(Node::Const(craw(&c))) }
pub fn expr(i: u32) -> String {
    match node(i) {
        Node::Var(s) => s,
        Node::Const(_) => { let c = as_const(i).unwrap(); let b = c.to_slice(); let mut s = String::from("0x"); for x in b.iter() { s += &format!("{:02x}", x); } s }
        Node::Add(a, b) => format!("({}+{})", expr(a), expr(b)),
        Node::Sub(a, b) => format!("({}-{})", expr(a), expr(b)),
        Node::Mul(a, b) => format!("({}*{})", expr(a), expr(b)),
        Node::Neg(a) => format!("(-{})", expr(a)),
        Node::Inv(a) => format!("INV({})", expr(a)),
    }
}
fn decide(a: u32, b: u32) -> bool {
    if a == b { return true; }
    if let (Some(x), Some(y)) = (as_const(a), as_const(b)) { return x == y; }
    let mut ar = ARENA.lock().unwrap();
    for (x, y, o) in ar.log.iter() { if (*x == a && *y == b) || (*x == b && *y == a) { return *o; } }
    let pos = ar.log.len();
    let out = if pos < ar.prefix.len() { ar.prefix[pos] } else { false };
    ar.log.push((a, b, out)); out
}

#[derive(Copy, Clone, Debug)]
#[repr(C)]
pub struct Fq(pub u32);
impl PartialEq for Fq { fn eq(&self, o: &Fq) -> bool { decide(self.0, o.0) } }
impl Eq for Fq {}
impl From<Fq> for U256 { fn from(a: Fq) -> U256 { as_const(a.0).expect("bytes of symbolic value").into() } }
impl From<Fq> for [u8; 32] { fn from(a: Fq) -> [u8; 32] { as_const(a.0).expect("bytes of symbolic value").to_slice() } }
impl Fq {
    pub fn from_str(s: &str) -> Option<Self> { CFq::from_str(s).map(konst) }
    pub fn new(a: U256) -> Option<Self> { CFq::new(a).map(konst) }
    pub fn from_slice(h: &[u8]) -> Option<Self> { CFq::from_slice(h).map(konst) }
    pub fn to_slice(self) -> [u8; 32] { self.into() }
    pub fn new_mul_factor(a: U256) -> Self { konst(CFq::new_mul_factor(a)) }
    pub fn interpret(b: &[u8; 64]) -> Self { konst(CFq::interpret(b)) }
    pub fn modulus() -> U256 { CFq::modulus() }
    pub fn add_inplace(&self, o: &Fq) -> Fq {
        match (as_const(self.0), as_const(o.0)) { (Some(x), Some(y)) => konst(x + y),
            (Some(x), _) if x.is_zero() => *o, (_, Some(y)) if y.is_zero() => *self, _ => mk(Node::Add(self.0, o.0)) } }
    pub fn sub_inplace(&self, o: &Fq) -> Fq {
        match (as_const(self.0), as_const(o.0)) { (Some(x), Some(y)) => konst(x - y),
            (_, Some(y)) if y.is_zero() => *self, _ => mk(Node::Sub(self.0, o.0)) } }
    pub fn mul_inplace(&self, o: &Fq) -> Fq {
        match (as_const(self.0), as_const(o.0)) { (Some(x), Some(y)) => konst(x * y),
            (Some(x), _) if x.is_zero() => *self, (_, Some(y)) if y.is_zero() => *o,
            (Some(x), _) if x.is_one() => *o, (_, Some(y)) if y.is_one() => *self,
            _ => { let (a, b) = if self.0 <= o.0 { (self.0, o.0) } else { (o.0, self.0) }; mk(Node::Mul(a, b)) } } }
    pub fn neg_inplace(&self) -> Fq { match as_const(self.0) { Some(x) => konst(-x), None => mk(Node::Neg(self.0)) } }
    pub fn sqrt(&self) -> Option<Self> { unimplemented!() }
    pub fn div2(self) -> Self { self * konst(CFq::one().div2()) }
    pub(crate) fn sum_of_products<const T: usize>(a: &[Fq; T], b: &[Fq; T]) -> Fq {
        let mut acc = Fq::zero(); for i in 0..T { acc = acc + a[i] * b[i]; } acc }
}
impl_binops_additive!(Fq, Fq);
impl_binops_multiplicative!(Fq, Fq);
impl_binops_negative!(Fq);
impl Zero for Fq { fn zero() -> Self { konst(CFq::zero()) } fn is_zero(&self) -> bool { decide(self.0, Fq::zero().0) } }
impl One for Fq { fn one() -> Self { konst(CFq::one()) } }
impl FieldElement for Fq {
    fn random<R: Rng>(_r: &mut R) -> Self { unimplemented!() }
    fn inverse(&self) -> Option<Self> { if self.is_zero() { None } else { match as_const(self.0) { Some(x) => x.inverse().map(konst), None => Some(mk(Node::Inv(self.0))) } } }
    fn double(&self) -> Self { *self + *self }
    fn triple(&self) -> Self { *self + *self + *self }
    fn squared(&self) -> Self { *self * *self }
}
