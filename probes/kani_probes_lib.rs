#![allow(unused)]
#[cfg(kani)]
mod h {
    use sm9_core::verif_hooks::*;
    use sm9_core::{One, Zero};
    pub fn adc_stub(a: &mut u64, b: u64, carry: u8) -> u8 {
        let tmp = *a as u128 + b as u128 + carry as u128;
        *a = tmp as u64;
        (tmp >> 64) as u8
    }
    pub fn sbb_stub(a: &mut u64, b: u64, borrow: u8) -> u8 {
        let tmp = (1u128 << 64) + (*a as u128) - (b as u128) - (borrow as u128);
        *a = tmp as u64;
        u8::from(tmp >> 64 == 0)
    }
    pub unsafe fn addcarry_stub(c_in: u8, a: u64, b: u64, out: &mut u64) -> u8 {
        let tmp = a as u128 + b as u128 + (c_in != 0) as u128;
        *out = tmp as u64;
        (tmp >> 64) as u8
    }
    pub unsafe fn subborrow_stub(c_in: u8, a: u64, b: u64, out: &mut u64) -> u8 {
        let tmp = (1u128 << 64) + (a as u128) - (b as u128) - ((c_in != 0) as u128);
        *out = tmp as u64;
        u8::from(tmp >> 64 == 0)
    }
    const Q: [u64; 4] = [0xE56F9B27E351457D, 0x21F2934B1A7AEEDB, 0xD603AB4FF58EC745, 0xB640000002A3A6F1];
    fn lt(a: &[u64; 4], b: &[u64; 4]) -> bool {
        // a < b
        let mut i = 4;
        while i > 0 { i -= 1; if a[i] != b[i] { return a[i] < b[i]; } }
        false
    }
    // reference: 5-limb add then conditional subtract, independent style (u128 per limb)
    fn ref_add(a: &[u64; 4], b: &[u64; 4]) -> [u64; 4] {
        let mut s = [0u64; 5];
        let mut c = 0u128;
        for i in 0..4 { let t = a[i] as u128 + b[i] as u128 + c; s[i] = t as u64; c = t >> 64; }
        s[4] = c as u64;
        // if s >= Q subtract
        let ge = s[4] != 0 || !lt(&[s[0], s[1], s[2], s[3]], &Q);
        if ge {
            let mut bo = 0i128; let mut o = [0u64; 4];
            for i in 0..4 { let t = s[i] as i128 - Q[i] as i128 - bo; o[i] = t as u64; bo = if t < 0 { 1 } else { 0 }; }
            o
        } else { [s[0], s[1], s[2], s[3]] }
    }
    #[kani::proof]
    #[kani::unwind(6)]
    #[kani::stub(ark_ff::biginteger::arithmetic::adc_for_add_with_carry, adc_stub)]
    #[kani::stub(ark_ff::biginteger::arithmetic::sbb_for_sub_with_borrow, sbb_stub)]
    fn fq_add_raw() {
        let a: [u64; 4] = kani::any();
        let b: [u64; 4] = kani::any();
        kani::assume(lt(&a, &Q) && lt(&b, &Q));
        let x = fq_from_raw(a);
        let y = fq_from_raw(b);
        let z = x + y;
        let zr = fq_raw(&z);
        let rr = ref_add(&a, &b); assert!(zr[0]==rr[0] && zr[1]==rr[1] && zr[2]==rr[2] && zr[3]==rr[3]);
        assert!(lt(&zr, &Q));
    }

    // ---- probe (a): stub private U256::mul / square with havoc-below-modulus contracts
    pub fn mul_stub(this: &mut U256, _other: &U256, modulo: &U256, _inv: u64) {
        let r: [u64; 4] = kani::any();
        let m = [modulo[0], modulo[1], modulo[2], modulo[3]];
        kani::assume(lt(&r, &m));
        *this = U256::from(r);
    }
    pub fn square_stub(this: &mut U256, modulo: &U256, _inv: u64) {
        let r: [u64; 4] = kani::any();
        let m = [modulo[0], modulo[1], modulo[2], modulo[3]];
        kani::assume(lt(&r, &m));
        *this = U256::from(r);
    }
    #[kani::proof]
    #[kani::unwind(6)]
    #[kani::stub(ark_ff::biginteger::arithmetic::adc_for_add_with_carry, adc_stub)]
    #[kani::stub(ark_ff::biginteger::arithmetic::sbb_for_sub_with_borrow, sbb_stub)]
    #[kani::stub(sm9_core::verif_hooks::U256::mul, mul_stub)]
    #[kani::stub(sm9_core::verif_hooks::U256::square, square_stub)]
    fn g1_from_compressed_total() {
        let b: [u8; 33] = kani::any();
        let r = sm9_core::G1::from_compressed(&b);
        if r.is_ok() { assert!(b[0] == 2 || b[0] == 3); }
    }

    pub fn sop_stub<const T: usize>(_a: &[RawFq; T], _b: &[RawFq; T]) -> RawFq {
        let r: [u64; 4] = kani::any();
        kani::assume(lt(&r, &Q));
        fq_from_raw(r)
    }
    pub fn invert_stub(this: &mut U256, modulo: &U256, _r2: &U256) {
        let r: [u64; 4] = kani::any();
        let m = [modulo[0], modulo[1], modulo[2], modulo[3]];
        kani::assume(lt(&r, &m));
        *this = U256::from(r);
    }
    #[kani::proof]
    #[kani::unwind(258)]
    #[kani::stub(ark_ff::biginteger::arithmetic::adc_for_add_with_carry, adc_stub)]
    #[kani::stub(ark_ff::biginteger::arithmetic::sbb_for_sub_with_borrow, sbb_stub)]
    #[kani::stub(sm9_core::verif_hooks::U256::mul, mul_stub)]
    #[kani::stub(sm9_core::verif_hooks::U256::square, square_stub)]
    #[kani::stub(sm9_core::verif_hooks::U256::invert, invert_stub)]
    #[kani::stub(sm9_core::verif_hooks::RawFq::sum_of_products, sop_stub)]
    fn g2_from_slice_total() {
        let b: [u8; 128] = kani::any();
        let r = sm9_core::G2::from_slice(&b);
        let _ = r.is_ok();
    }

    #[kani::proof]
    #[kani::unwind(258)]
    #[kani::stub(ark_ff::biginteger::arithmetic::adc_for_add_with_carry, adc_stub)]
    #[kani::stub(ark_ff::biginteger::arithmetic::sbb_for_sub_with_borrow, sbb_stub)]
    fn k_bits() {
        let e: [u64; 4] = kani::any();
        let v = U256::from(e);
        let mut acc = [0u64; 4];
        let mut n = 0u32;
        for b in v.bits_without_leading_zeros() {
            // acc = 2*acc + b
            let c0 = acc[0] >> 63; let c1 = acc[1] >> 63; let c2 = acc[2] >> 63;
            acc[3] = (acc[3] << 1) | c2; acc[2] = (acc[2] << 1) | c1; acc[1] = (acc[1] << 1) | c0; acc[0] = (acc[0] << 1) | (b as u64);
            n += 1;
        }
        assert!(acc[0]==e[0] && acc[1]==e[1] && acc[2]==e[2] && acc[3]==e[3]);
    }
    #[kani::proof]
    #[kani::unwind(275)]
    #[kani::stub(ark_ff::biginteger::arithmetic::adc_for_add_with_carry, adc_stub)]
    #[kani::stub(ark_ff::biginteger::arithmetic::sbb_for_sub_with_borrow, sbb_stub)]
    fn k_divrem_small_dummy() {}
    #[kani::proof]
    #[kani::unwind(275)]
    #[kani::stub(core::arch::x86_64::_addcarry_u64, addcarry_stub)]
    #[kani::stub(core::arch::x86_64::_subborrow_u64, subborrow_stub)]
    fn k_divrem_small2() {
        let lo: [u64; 4] = kani::any();
        let hi: u16 = kani::any();
        let x = U512::from([lo[0], lo[1], lo[2], lo[3], hi as u64, 0, 0, 0]);
        let m = U256::from(Q);
        let (_q, r) = x.divrem(&m);
        let rr = [r[0], r[1], r[2], r[3]];
        assert!(lt(&rr, &Q));
    }

    pub fn affine_new_stub<P: GroupParams>(x: P::Base, y: P::Base) -> Result<AffineG<P>, sm9_core::GroupError> {
        // contract: Ok or Err, no panic; on Ok the point carries exactly (x, y)
        let _ = (x, y);
        Err(sm9_core::GroupError::NotOnCurve)
    }
    pub fn check_order_stub() -> bool { false }
    #[kani::proof]
    #[kani::unwind(12)]
    #[kani::stub(core::arch::x86_64::_addcarry_u64, addcarry_stub)]
    #[kani::stub(core::arch::x86_64::_subborrow_u64, subborrow_stub)]
    #[kani::stub(sm9_core::verif_hooks::U256::mul, mul_stub)]
    #[kani::stub(sm9_core::verif_hooks::U256::square, square_stub)]
    #[kani::stub(sm9_core::verif_hooks::U256::invert, invert_stub)]
    #[kani::stub(sm9_core::verif_hooks::RawFq::sum_of_products, sop_stub)]
    #[kani::stub(sm9_core::verif_hooks::AffineG::new, affine_new_stub)]
    fn g2_from_slice_stubbed_new() {
        let b: [u8; 128] = kani::any();
        let r = sm9_core::G2::from_slice(&b);
        assert!(r.is_err());
    }

    pub fn divrem_stub(_x: &U512, modulo: &U256) -> (Option<U256>, U256) {
        let r: [u64; 4] = kani::any();
        let m = [modulo[0], modulo[1], modulo[2], modulo[3]];
        kani::assume(lt(&r, &m));
        (None, U256::from(r))
    }
    const RR: [u64; 4] = [0xE56EE19CD69ECF25, 0x49F2934B18EA8BEE, 0xD603AB4FF58EC744, 0xB640000002A3A6F1];
    #[kani::proof]
    #[kani::unwind(72)]
    #[kani::stub(core::arch::x86_64::_addcarry_u64, addcarry_stub)]
    #[kani::stub(core::arch::x86_64::_subborrow_u64, subborrow_stub)]
    #[kani::stub(sm9_core::verif_hooks::U256::mul, mul_stub)]
    #[kani::stub(sm9_core::verif_hooks::U512::divrem, divrem_stub)]
    fn k_from_slice_dispatch_fr() {
        let buf: [u8; 70] = kani::any();
        let len: usize = kani::any();
        kani::assume(len <= 70);
        let r = sm9_core::Fr::from_slice(&buf[..len]);
        assert!(r.is_some() == (len >= 1 && len <= 64));
        if let Some(f) = r {
            let _ = f;
            kani::cover!(len == 32);
            kani::cover!(len == 64);
        }
    }
}
