import time
from z3 import *
q=0xB640000002A3A6F1D603AB4FF58EC74521F2934B1A7AEEDBE56F9B27E351457D
x,y=Ints('x y')
s=Solver(); s.add(((q-1)*x*y + y*x) % q != 0); t=time.time(); print(s.check(), time.time()-t)
# Fq12 = Fq4[w]/(w^3 - v), Fq4 = Fq2[v]/(v^2-u), Fq2=Fq[u]/(u^2+2): karatsuba Fq12 mul over abstract commutative ring Fq4 (vars are Fq4 elements abstracted as Ints; v is a ring constant 'xi')
a0,a1,a2,b0,b1,b2,xi=Ints('a0 a1 a2 b0 b1 b2 xi')
aa=a0*b0; bb=a1*b1; cc=a2*b2
c0=((a1+a2)*(b1+b2)-bb-cc)*xi+aa
c1=(a0+a1)*(b0+b1)-aa-bb+cc*xi
c2=(a0+a2)*(b0+b2)-aa+bb-cc
r0=a0*b0+xi*(a1*b2+a2*b1); r1=a0*b1+a1*b0+xi*a2*b2; r2=a0*b2+a1*b1+a2*b0
s=Solver(); s.add(Or(c0!=r0,c1!=r1,c2!=r2)); t=time.time(); print(s.check(), time.time()-t)
# flat: Fq12 mul fully expanded over 24 Fq vars? build generic tower poly arithmetic with python lists
def fq2mul(a,b): return (a[0]*b[0]-2*a[1]*b[1], a[0]*b[1]+a[1]*b[0])
def fq2add(a,b): return (a[0]+b[0],a[1]+b[1])
def fq2sub(a,b): return (a[0]-b[0],a[1]-b[1])
def fq2nr(a): return (-2*a[1],a[0])
def fq4mul(a,b):
    # (a0 + a1 v)(b0 + b1 v), v^2=u
    return (fq2add(fq2mul(a[0],b[0]), fq2nr(fq2mul(a[1],b[1]))), fq2add(fq2mul(a[0],b[1]),fq2mul(a[1],b[0])))
def fq4add(a,b): return (fq2add(a[0],b[0]),fq2add(a[1],b[1]))
def fq4sub(a,b): return (fq2sub(a[0],b[0]),fq2sub(a[1],b[1]))
def fq4nr(a): return (fq2nr(a[1]),a[0])
A=[((Int('a%d0'%i),Int('a%d1'%i)),(Int('a%d2'%i),Int('a%d3'%i))) for i in range(3)]
B=[((Int('b%d0'%i),Int('b%d1'%i)),(Int('b%d2'%i),Int('b%d3'%i))) for i in range(3)]
aa=fq4mul(A[0],B[0]); bb=fq4mul(A[1],B[1]); cc=fq4mul(A[2],B[2])
C0=fq4add(fq4nr(fq4sub(fq4sub(fq4mul(fq4add(A[1],A[2]),fq4add(B[1],B[2])),bb),cc)),aa)
R0=fq4add(fq4mul(A[0],B[0]), fq4nr(fq4add(fq4mul(A[1],B[2]),fq4mul(A[2],B[1]))))
flat=lambda e:[e[0][0],e[0][1],e[1][0],e[1][1]]
s=Solver(); s.add(Or(*[l!=r for l,r in zip(flat(C0),flat(R0))])); t=time.time(); print('flat c0',s.check(), time.time()-t)
