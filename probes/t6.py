import time,sys
from z3 import *
def fq2mul(a,b): return (a[0]*b[0]-2*a[1]*b[1], a[0]*b[1]+a[1]*b[0])
def fq2add(a,b): return (a[0]+b[0],a[1]+b[1])
def fq2sub(a,b): return (a[0]-b[0],a[1]-b[1])
def fq2nr(a): return (-2*a[1],a[0])
def fq4mul(a,b): return (fq2add(fq2mul(a[0],b[0]), fq2nr(fq2mul(a[1],b[1]))), fq2add(fq2mul(a[0],b[1]),fq2mul(a[1],b[0])))
def fq4add(a,b): return (fq2add(a[0],b[0]),fq2add(a[1],b[1]))
def fq4sub(a,b): return (fq2sub(a[0],b[0]),fq2sub(a[1],b[1]))
def fq4nr(a): return (fq2nr(a[1]),a[0])
A=[((Int('a%d0'%i),Int('a%d1'%i)),(Int('a%d2'%i),Int('a%d3'%i))) for i in range(3)]
# Fq12 inverse Algorithm 17 adjugate over Fq4: c0 = a0^2 - a1*(a2*v) ...
c0=fq4sub(fq4mul(A[0],A[0]), fq4mul(A[1],fq4nr(A[2])))
c1=fq4sub(fq4nr(fq4mul(A[2],A[2])), fq4mul(A[0],A[1]))
c2=fq4sub(fq4mul(A[1],A[1]), fq4mul(A[0],A[2]))
n4=fq4add(fq4nr(fq4add(fq4mul(A[2],c1),fq4mul(A[1],c2))), fq4mul(A[0],c0))   # norm in Fq4
# check x*adj = n4 (as Fq12 element with c1=c2=0): Fq4-level degree 3 in 12 Fq vars
def fq12mul(x,y):
    return (fq4add(fq4mul(x[0],y[0]), fq4nr(fq4add(fq4mul(x[1],y[2]),fq4mul(x[2],y[1])))),
            fq4add(fq4add(fq4mul(x[0],y[1]),fq4mul(x[1],y[0])), fq4nr(fq4mul(x[2],y[2]))),
            fq4add(fq4add(fq4mul(x[0],y[2]),fq4mul(x[1],y[1])),fq4mul(x[2],y[0])))
P=fq12mul(A,(c0,c1,c2))
flat=lambda e:[e[0][0],e[0][1],e[1][0],e[1][1]]
zero=((0,0),(0,0))
s=Solver()
s.add(Or(*[l!=r for l,r in zip(flat(P[0])+flat(P[1])+flat(P[2]), flat(n4)+[0]*8)]))
t=time.time(); print('x*adj==N4 (deg3, 12 vars):',s.check(), time.time()-t); sys.stdout.flush()
