// PROBE driver: enumerate paths of the real generic G<G1Params>::add over symbolic coordinates
extern crate std;
use crate::fields::symfq::{self, var, expr, ARENA};
use crate::groups::{G, G1Params, G2Params};
use crate::fields::Fq2;
use std::{println, vec::Vec, vec, string::String, format};
pub fn run2() {
    let mut work: Vec<Vec<bool>> = vec![vec![]];
    let mut leaves = 0;
    while let Some(prefix) = work.pop() {
        { let mut a = ARENA.lock().unwrap(); a.prefix = prefix.clone(); a.log.clear(); }
        let f2 = |n: &str| Fq2::new(var(&format!("{}a", n)), var(&format!("{}b", n)));
        let p: G<G2Params> = G::new(f2("X1"), f2("Y1"), f2("Z1"));
        let q: G<G2Params> = G::new(f2("X2"), f2("Y2"), f2("Z2"));
        let r = std::panic::catch_unwind(|| p + q);
        let log = ARENA.lock().unwrap().log.clone();
        let pc: Vec<String> = log.iter().map(|(a, b, o)| format!("[\"{}\",\"{}\",{}]", expr(*a), expr(*b), if *o {"true"} else {"false"})).collect();
        match r {
            Ok(g) => println!("{{\"pc\":[{}],\"out\":[\"{}\",\"{}\",\"{}\",\"{}\",\"{}\",\"{}\"]}}", pc.join(","), expr(g.x().real().0), expr(g.x().imaginary().0), expr(g.y().real().0), expr(g.y().imaginary().0), expr(g.z().real().0), expr(g.z().imaginary().0)),
            Err(_) => println!("{{\"pc\":[{}],\"panic\":true}}", pc.join(",")),
        }
        leaves += 1;
        for i in prefix.len()..log.len() {
            let mut np: Vec<bool> = log[..i].iter().map(|x| x.2).collect(); np.push(!log[i].2); work.push(np);
        }
    }
    std::eprintln!("leaves: {}", leaves);
}
pub fn run() {
    if std::env::args().nth(1).as_deref() == Some("g2") { return run2(); }
    let mode = std::env::args().nth(1).unwrap_or(String::from("jj"));
    let mut work: Vec<Vec<bool>> = vec![vec![]];
    let mut leaves = 0;
    while let Some(prefix) = work.pop() {
        { let mut a = ARENA.lock().unwrap(); a.prefix = prefix.clone(); a.log.clear(); }
        let one = <symfq::Fq as crate::One>::one();
        let z1 = if mode.as_bytes()[0] == b'a' { one } else { var("Z1") };
        let z2 = if mode.as_bytes()[1] == b'a' { one } else { var("Z2") };
        let p: G<G1Params> = G::new(var("X1"), var("Y1"), z1);
        let q: G<G1Params> = G::new(var("X2"), var("Y2"), z2);
        let r = std::panic::catch_unwind(|| p + q);
        let log = ARENA.lock().unwrap().log.clone();
        let pc: Vec<String> = log.iter().map(|(a, b, o)| format!("[\"{}\",\"{}\",{}]", expr(*a), expr(*b), if *o {"true"} else {"false"})).collect();
        match r {
            Ok(g) => println!("{{\"pc\":[{}],\"out\":[\"{}\",\"{}\",\"{}\"]}}", pc.join(","), expr(g.x().0), expr(g.y().0), expr(g.z().0)),
            Err(_) => println!("{{\"pc\":[{}],\"panic\":true}}", pc.join(",")),
        }
        leaves += 1;
        for i in prefix.len()..log.len() {
            let mut np: Vec<bool> = log[..i].iter().map(|x| x.2).collect(); np.push(!log[i].2); work.push(np);
        }
    }
    std::eprintln!("leaves: {}", leaves);
}
