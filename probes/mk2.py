s=open('/tmp/probe/llir.py').read()
s=s.replace("M = Function('M', IntSort(), IntSort(), IntSort())","""M = Function('M', IntSort(), IntSort(), IntSort())
_split = {}
_cnt = [0]
def split(t, n, bound=None):
    t = simplify(t)
    if is_int_value(t): return IntVal(t.as_long() // n), IntVal(t.as_long() % n)
    key = (t.sexpr(), n)
    if key not in _split:
        _cnt[0] += 1
        q = Int('q!%d' % _cnt[0]); r = Int('r!%d' % _cnt[0])
        solver_axioms.append(And(t == q * n + r, r >= 0, r < n, q >= 0))
        _split[key] = (q, r)
    return _split[key]
def mod_(t, n): return split(t, n)[1]
def div_(t, n): return split(t, n)[0]
KS = []""")
s=s.replace("env[dst] = (v % 2 == 1) if mm.group(3) == 'i1' else v % (2**bits(mm.group(3)))","env[dst] = (mod_(v,2) == 1) if mm.group(3) == 'i1' else mod_(v, 2**bits(mm.group(3)))")
s=s.replace("if op == 'add': env[dst] = (a + c) % n","if op == 'add': env[dst] = (a + c) if 'nuw' in rhs.split(ty)[0] else mod_(a + c, n)")
s=s.replace("elif op == 'sub': env[dst] = (a - c) % n","elif op == 'sub': env[dst] = mod_(a - c + n, n)")
s=s.replace("""                            env[dst] = (a * c) % n
""","""                            if 'nuw' in rhs.split(ty)[0]: env[dst] = a * c
                            else:
                                env[dst] = mod_(a * c, n)
                                if ty == 'i64': KS.append(env[dst])
""")
s=s.replace("env[dst] = t % n","env[dst] = t")
s=s.replace("env[dst] = a % (cc.as_long()+1)","env[dst] = mod_(a, cc.as_long()+1)")
s=s.replace("env[dst] = a / (2**simplify(c).as_long())","env[dst] = div_(a, 2**simplify(c).as_long())")
s=s.replace("d = a - c - cin; env[dst] = (If(d < 0, 1, 0), d % W)","d = a - c - cin; env[dst] = (If(d < 0, 1, 0), If(d < 0, d + W, d))")
i=s.index("# goal: OUT < P")
s=s[:i]+"""K = sum(KS[i] * W**i for i in range(4))
print('k terms:', len(KS), 'splits:', _cnt[0])
def chk(name, f):
    s.push(); s.add(f); t = time.time(); r = s.check(); print(name, r, '%.1fs' % (time.time()-t)); s.pop()
chk('witness form: OUT*R in {T+KP, T+KP-PR}:', And(OUT*R != Tspec + K*P, OUT*R != Tspec + K*P - P*R))
chk('canonical OUT<P:', Not(OUT < P))
chk('canary (must be sat):', And(OUT*R != Tspec + K*P + 1, OUT*R != Tspec + K*P - P*R + 1))
"""
open('/tmp/probe/llir2.py','w').write(s)
print('ok')
