s=open('/tmp/probe/gmul_exec.py').read()
# 1. add inner-loop cut point
s=s.replace("""        nxt = None
        for ins in blocks[blk]:""","""        if blk == 'bb1.i' and st.pred is not None and st.pred.endswith('next17h5a37922e95d4ee02E.exit.i') and not st.__dict__.get('fresh'):
            cnt = st.env['%18']; assert isinstance(cnt, int)
            inner_states.setdefault(cnt, []).append((list(st.guard), coef_of('%res', st)))
            return
        st.fresh = False
        nxt = None
        for ins in blocks[blk]:""")
s=s.replace("header_states = {}   # (counter, flag) -> list of (guard, coef)","header_states = {}   # (counter, flag) -> list of (guard, coef)\ninner_states = {}")
i=s.index("sys.setrecursionlimit(100000)")
tail = r'''
sys.setrecursionlimit(100000)
t0 = time.time()
def Kdiv(c):
    if c >= 256: return IntVal(0)
    j, sh = divmod(c, 64)
    hi = sum(K[i] * (2**(64*(i-j)-sh)) for i in range(j+1, 4)) if j < 3 else 0
    return hi + (split(K[j], 2**sh)[0] if sh else K[j])
def G(g): return And(*g) if g else BoolVal(True)
KK = sum(K[i]*W**i for i in range(4))
queries = []
def collect(tag, hyp):
    for (c2, fl), lst in header_states.items():
        for g, cf in lst: queries.append((tag + '->outer(%d)' % c2, hyp, And(G(g), cf != Kdiv(c2))))
    header_states.clear()
    for c2, lst in inner_states.items():
        for g, cf in lst: queries.append((tag + '->inner(%d)' % c2, hyp, And(G(g), Or(Kdiv(c2) != 0, cf != 0))))
    inner_states.clear()
    for g, cf in returns: queries.append((tag + '->return', hyp, And(G(g), cf != KK)))
    returns.clear()
# segment 0: function entry up to the first cut point
st = St(); st.env['%self'] = ('ptr', '%self', 0); st.env['%other'] = ('ptr', '%other', 0); st.env['%_0'] = ('ptr', '%_0', 0)
st.mem['%self'] = {}; st.mem['%other'] = {}; st.mem['%_0'] = {}; st.coef['%self'] = 1
# run entry until bb1.i is entered from the preheader (treated as inner cut with counter 256)
def base_state(coef_res):
    s2 = St()
    s2.env.update({'%self': ('ptr', '%self', 0), '%_0': ('ptr', '%_0', 0), '%res': ('ptr', '%res', 0), '%_6': ('ptr', '%_6', 0), '%_10': ('ptr', '%_10', 0), '%_21': ('ptr', '%_21', 0)})
    s2.mem = {'%res': {}, '%_6': {8 * i: K[i] for i in range(4)}, '%_10': {}, '%_21': {}, '%_0': {}, '%self': {}}
    s2.coef = {'%self': 1, '%res': coef_res}; s2.guard = []
    return s2
# entry segment: execute real prologue concretely to check it reaches bb1.i with counter 256 and res = identity
class Stop(Exception): pass
_orig_blocks_bb1 = blocks['bb1.i']
st.fresh = False
entry_reached = []
def run_entry():
    # run until bb1.preheader.i falls into bb1.i; we detect by temporarily treating pred 'bb1.preheader.i' as a cut
    pass
# (prologue handled by the generic run(): the first arrival at bb1.i comes from bb1.preheader.i and is NOT a cut, so we emulate the cut by hand)
for n in range(256, 0, -1):
    s2 = base_state(0)
    s2.env['%16'] = n; s2.pred = 'cut'; s2.fresh = True
    # execute bb1.i body with %16 = n: skip the phi by pre-binding and starting after it
    blocks['bb1.i'] = [i_ for i_ in _orig_blocks_bb1 if not i_.startswith('%16 = phi')]
    run(s2, 'bb1.i')
    blocks['bb1.i'] = _orig_blocks_bb1
    collect('inner(%d)' % n, [Kdiv(n) == 0])
s2 = base_state(0); s2.env['%16'] = 0; s2.pred = 'cut'; s2.fresh = True
blocks['bb1.i'] = [i_ for i_ in _orig_blocks_bb1 if not i_.startswith('%16 = phi')]
run(s2, 'bb1.i'); blocks['bb1.i'] = _orig_blocks_bb1
collect('inner(0)', [Kdiv(0) == 0])
for c in range(255, -1, -1):
    tv = Int('t!%d' % c)
    s2 = base_state(tv)
    s2.env['%iter.sroa.4.0'] = c; s2.env['%iter.sroa.8.0'] = True; s2.pred = 'bb3'
    run(s2, 'bb1.us.i')
    collect('outer(%d)' % c, [tv == Kdiv(c)])
print('obligations:', len(queries), 'splits', _cnt[0], 'exec %.1fs' % (time.time() - t0))
'''
s = s[:i] + tail
# append solver loop from gmul_exec3
s3=open('/tmp/probe/gmul_exec3.py').read()
j=s3.index("t1 = time.time(); res = {}")
s += s3[j:]
open('/tmp/probe/gmul_exec4.py','w').write(s)
print('ok')
