# throwaway probe: merging symbolic executor for the release IR of <G<P> as Mul<Fr>>::mul
# abstraction: point objects carry an integer coefficient; double -> 2c, add -> c1+c2; scalar after U256::mul(.,1) = fresh limbs
import re, sys, time, copy
from z3 import *
W = 2**64
src = open(sys.argv[1]).read().splitlines()
blocks = {}; order = []; cur = None
for ln in src[1:]:
    if ln.startswith(';') or not ln.strip() or ln.startswith('}'): continue
    m = re.match(r'^("[^"]+"|[\w.$]+):', ln)
    if m and not ln.startswith(' '):
        cur = m.group(1).strip('"'); blocks[cur] = []; order.append(cur); continue
    blocks[cur].append(ln.strip())

axioms = []; _split = {}; _cnt = [0]
def split(t, n):
    if isinstance(t, int): return t // n, t % n
    key = (t.sexpr(), n)
    if key not in _split:
        _cnt[0] += 1
        q = Int('q!%d' % _cnt[0]); r = Int('r!%d' % _cnt[0])
        axioms.append(And(t == q * n + r, r >= 0, r < n, q >= 0)); _split[key] = (q, r)
    return _split[key]

K = [Int('k%d' % i) for i in range(4)]
for k in K: axioms.append(And(k >= 0, k < W))

class St:
    def __init__(s): s.env = {}; s.mem = {}; s.coef = {}; s.guard = []; s.pred = None
    def clone(s):
        n = St(); n.env = dict(s.env); n.mem = {k: dict(v) for k, v in s.mem.items()}; n.coef = dict(s.coef); n.guard = list(s.guard); n.pred = s.pred; return n

def val(tok, st):
    tok = tok.strip().rstrip(',')
    if tok.startswith('%'): return st.env[tok]
    if tok == 'true': return True
    if tok == 'false': return False
    if tok.startswith('@'): return ('ptr', tok, 0)
    return int(tok)

def ptr_of(tok, st):
    tok = tok.strip().rstrip(',')
    m = re.match(r'getelementptr inbounds nuw \(i8, ptr (@"[^"]+"), i64 (\d+)\)', tok)
    if m: return ('ptr', m.group(1), int(m.group(2)))
    v = val(tok, st)
    assert isinstance(v, tuple), tok
    return v

HEADER = 'bb3'
header_states = {}   # (counter, flag) -> list of (guard, coef)
inner_states = {}
returns = []
steps = [0]

def coef_of(obj, st):
    if obj in st.coef: return st.coef[obj]
    cells = st.mem.get(obj, {})
    z = [cells.get(o) for o in range(128, 192, 8)]
    assert all(isinstance(c, int) and c == 0 for c in z), ('unknown point object', obj, z)
    return 0

def run(st, blk):
    while True:
        steps[0] += 1
        if blk == HEADER and st.pred == 'bb3.backedge':
            # stop: record header state
            cnt = st.env['%iter.sroa.4.2']; assert isinstance(cnt, int)
            header_states.setdefault((cnt, True), []).append((list(st.guard), coef_of('%res', st)))
            return
        if blk == 'bb1.i' and st.pred is not None and st.pred.endswith('next17h5a37922e95d4ee02E.exit.i') and not st.__dict__.get('fresh'):
            cnt = st.env['%18']; assert isinstance(cnt, int)
            inner_states.setdefault(cnt, []).append((list(st.guard), coef_of('%res', st)))
            return
        st.fresh = False
        nxt = None
        for ins in blocks[blk]:
            m = re.match(r'(%[\w.\-]+) = (.*)', ins)
            if m:
                dst, rhs = m.group(1), m.group(2)
                if rhs.startswith('tail '): rhs = rhs[5:]
                op = rhs.split()[0]
                if op == 'alloca': st.env[dst] = ('ptr', dst, 0); st.mem[dst] = {}
                elif op == 'phi':
                    ty = rhs.split()[1]
                    inc = re.findall(r'\[ (\S+), %("[^"]+"|[\w.$]+) \]', rhs)
                    got = None
                    for v, pb in inc:
                        if pb.strip('"') == st.pred: got = v
                    assert got is not None, (dst, st.pred)
                    st.env[dst] = val(got, st)
                elif op == 'load':
                    mm = re.match(r'load (atomic )?(i\d+), ptr (.+?)( acquire)?, align', rhs)
                    p = ptr_of(mm.group(3), st)
                    if mm.group(1): st.env[dst] = 2          # Once state COMPLETE (assumption)
                    elif p[1].startswith('@'): st.env[dst] = Int('glob_' + str(abs(hash(p[1])) % 10000))
                    else: st.env[dst] = st.mem[p[1]][p[2]]
                elif op == 'getelementptr':
                    mm = re.match(r'getelementptr inbounds nuw (i8|i64), ptr (%[\w.\-]+), i64 (\S+)', rhs)
                    p = ptr_of(mm.group(2), st); idx = val(mm.group(3), st); assert isinstance(idx, int)
                    st.env[dst] = ('ptr', p[1], p[2] + idx * (1 if mm.group(1) == 'i8' else 8))
                elif op in ('add', 'and', 'lshr', 'sub'):
                    mm = re.match(r'\w+ (?:nuw |nsw )*(i\d+) (\S+), (\S+)', rhs)
                    a = val(mm.group(2), st); c = val(mm.group(3), st); n = 2**int(mm.group(1)[1:])
                    if op == 'add': st.env[dst] = (a + c) % n if isinstance(a, int) and isinstance(c, int) else None
                    elif op == 'and': assert isinstance(a, int); st.env[dst] = a & c
                    elif op == 'lshr':
                        assert isinstance(c, int)
                        st.env[dst] = (a >> c) if isinstance(a, int) else split(a, 2**c)[0]
                    assert st.env[dst] is not None, ins
                elif op == 'icmp':
                    mm = re.match(r'icmp (\w+) (i\d+) (\S+), (\S+)', rhs)
                    a = val(mm.group(3), st); c = val(mm.group(4), st); n = 2**int(mm.group(2)[1:])
                    assert isinstance(a, int) and isinstance(c, int), ins
                    a %= n; c %= n
                    st.env[dst] = {'eq': a == c, 'ult': a < c, 'ugt': a > c, 'ne': a != c}[mm.group(1)]
                elif op == 'trunc':
                    mm = re.match(r'trunc i64 (\S+) to i1', rhs); a = val(mm.group(1), st)
                    st.env[dst] = (a % 2 == 1) if isinstance(a, int) else (split(a, 2)[1] == 1)
                elif op == 'call':   # try_call_once_slow
                    st.env[dst] = ('ptr', '@slow', 0)
                else: raise Exception('unhandled ' + ins)
                continue
            if ins.startswith('tail '): ins = ins[5:]
            if ins.startswith('call void @llvm.lifetime') or ins.startswith('call void @llvm.experimental') or ins.startswith('call void @llvm.assume'): continue
            if ins.startswith('call void @llvm.memset'):
                mm = re.match(r'call void @llvm.memset.p0.i64\(ptr [^%]*(%[\w.\-]+), i8 0, i64 (\d+)', ins)
                p = ptr_of(mm.group(1), st)
                for o in range(p[2], p[2] + int(mm.group(2)), 8): st.mem[p[1]][o] = 0
                st.coef.pop(p[1], None); continue
            if ins.startswith('call void @llvm.memcpy'):
                mm = re.match(r'call void @llvm.memcpy.p0.p0.i64\(ptr [^%]*(%[\w.\-]+), ptr [^%@]*([%@][\w.$"]+), i64 (\d+)', ins)
                d = ptr_of(mm.group(1), st); s_ = ptr_of(mm.group(2), st); n = int(mm.group(3))
                if d[1] == '%_0': returns.append((list(st.guard), coef_of(s_[1], st))); continue
                if n == 192 and d[2] == 0 and s_[2] == 0 and s_[1] in st.coef:
                    st.coef[d[1]] = st.coef[s_[1]]; st.mem[d[1]] = {}; continue
                st.coef.pop(d[1], None)
                for o in range(0, n, 8):
                    v = st.mem.get(s_[1], {}).get(s_[2] + o)
                    if v is None: v = Int('g_%s_%d' % (abs(hash(s_[1])) % 1000, s_[2] + o)) if s_[1].startswith('@') else K[o // 8] if s_[1] == '%other' else None
                    assert v is not None, ins
                    st.mem[d[1]][d[2] + o] = v
                continue
            if ins.startswith('store'):
                mm = re.match(r'store i64 (\S+), ptr (%[\w.\-]+)', ins); p = ptr_of(mm.group(2), st); st.mem[p[1]][p[2]] = val(mm.group(1), st); continue
            if 'U2563mul' in ins: continue   # scalar := canonical limbs K (contract L-dec); picked up by the memcpy from %other
            if 'GroupElement$GT$6double' in ins:
                mm = re.findall(r'(%[\w.\-]+)\)?$|(%[\w.\-]+),', ins); ps = re.findall(r'(%[\w.\-]+)(?=[,)])', ins)
                out, inp = ps[0], ps[1]; st.coef[out] = 2 * coef_of(inp, st); continue
            if 'arith..Add$GT$3add' in ins:
                ps = re.findall(r'(%[\w.\-]+)(?=[,)])', ins)
                out, a, b = ps[0], ps[1], ps[2]
                cb = 1 if b == '%self' else coef_of(b, st); ca = 1 if a == '%self' else coef_of(a, st)
                st.coef[out] = ca + cb; continue
            if ins.startswith('br i1'):
                mm = re.match(r'br i1 (\S+), label %("[^"]+"|[\w.$]+), label %("[^"]+"|[\w.$]+)', ins)
                c = val(mm.group(1), st); t1 = mm.group(2).strip('"'); t2 = mm.group(3).strip('"')
                if isinstance(c, bool): nxt = t1 if c else t2
                else:
                    s2 = st.clone(); s2.guard.append(Not(c)); s2.pred = blk; run(s2, t2)
                    st.guard.append(c); nxt = t1
                break
            if ins.startswith('br label'):
                nxt = re.match(r'br label %("[^"]+"|[\w.$]+)', ins).group(1).strip('"'); break
            if ins.startswith('ret'): return
            raise Exception('unhandled ' + ins)
        st.pred = blk; blk = nxt


sys.setrecursionlimit(100000)
t0 = time.time()
def Kdiv(c):
    if c >= 256: return IntVal(0)
    j, sh = divmod(c, 64)
    hi = sum(K[i] * (2**(64*(i-j)-sh)) for i in range(j+1, 4)) if j < 3 else 0
    return hi + (split(K[j], 2**sh)[0] if sh else K[j])
def G(g): return And(*g) if g else BoolVal(True)
KK = sum(K[i]*W**i for i in range(4))
queries = []
def collect(tag, hyp):
    for (c2, fl), lst in header_states.items():
        for g, cf in lst: queries.append((tag + '->outer(%d)' % c2, hyp, And(G(g), cf != Kdiv(c2))))
    header_states.clear()
    for c2, lst in inner_states.items():
        for g, cf in lst: queries.append((tag + '->inner(%d)' % c2, hyp, And(G(g), Or(Kdiv(c2) != 0, cf != 0))))
    inner_states.clear()
    for g, cf in returns: queries.append((tag + '->return', hyp, And(G(g), cf != KK)))
    returns.clear()
# segment 0: function entry up to the first cut point
st = St(); st.env['%self'] = ('ptr', '%self', 0); st.env['%other'] = ('ptr', '%other', 0); st.env['%_0'] = ('ptr', '%_0', 0)
st.mem['%self'] = {}; st.mem['%other'] = {}; st.mem['%_0'] = {}; st.coef['%self'] = 1
# run entry until bb1.i is entered from the preheader (treated as inner cut with counter 256)
def base_state(coef_res):
    s2 = St()
    s2.env.update({'%self': ('ptr', '%self', 0), '%_0': ('ptr', '%_0', 0), '%res': ('ptr', '%res', 0), '%_6': ('ptr', '%_6', 0), '%_10': ('ptr', '%_10', 0), '%_21': ('ptr', '%_21', 0)})
    s2.mem = {'%res': {}, '%_6': {8 * i: K[i] for i in range(4)}, '%_10': {}, '%_21': {}, '%_0': {}, '%self': {}}
    s2.coef = {'%self': 1, '%res': coef_res}; s2.guard = []
    return s2
# entry segment: execute real prologue concretely to check it reaches bb1.i with counter 256 and res = identity
class Stop(Exception): pass
_orig_blocks_bb1 = blocks['bb1.i']
st.fresh = False
entry_reached = []
def run_entry():
    # run until bb1.preheader.i falls into bb1.i; we detect by temporarily treating pred 'bb1.preheader.i' as a cut
    pass
# (prologue handled by the generic run(): the first arrival at bb1.i comes from bb1.preheader.i and is NOT a cut, so we emulate the cut by hand)
for n in range(256, 0, -1):
    s2 = base_state(0)
    s2.env['%16'] = n; s2.pred = 'cut'; s2.fresh = True
    # execute bb1.i body with %16 = n: skip the phi by pre-binding and starting after it
    blocks['bb1.i'] = [i_ for i_ in _orig_blocks_bb1 if not i_.startswith('%16 = phi')]
    run(s2, 'bb1.i')
    blocks['bb1.i'] = _orig_blocks_bb1
    collect('inner(%d)' % n, [Kdiv(n) == 0])
s2 = base_state(0); s2.env['%16'] = 0; s2.pred = 'cut'; s2.fresh = True
blocks['bb1.i'] = [i_ for i_ in _orig_blocks_bb1 if not i_.startswith('%16 = phi')]
run(s2, 'bb1.i'); blocks['bb1.i'] = _orig_blocks_bb1
collect('inner(0)', [Kdiv(0) == 0])
for c in range(255, -1, -1):
    tv = Int('t!%d' % c)
    s2 = base_state(tv)
    s2.env['%iter.sroa.4.0'] = c; s2.env['%iter.sroa.8.0'] = True; s2.pred = 'bb3'
    run(s2, 'bb1.us.i')
    collect('outer(%d)' % c, [tv == Kdiv(c)])
print('obligations:', len(queries), 'splits', _cnt[0], 'exec %.1fs' % (time.time() - t0))
t1 = time.time(); res = {}
def consts(e, acc):
    todo=[e]; seen=set()
    while todo:
        x=todo.pop()
        if x.get_id() in seen: continue
        seen.add(x.get_id())
        if is_const(x) and x.decl().kind()==Z3_OP_UNINTERPRETED: acc.add(x.decl().name())
        todo.extend(x.children())
    return acc
ax_by_var = {}
for a in axioms:
    for v in consts(a, set()):
        if v.startswith('q!') or v.startswith('r!'): ax_by_var.setdefault(v, []).append(a)
range_ax = [a for a in axioms if not any(v.startswith('q!') or v.startswith('r!') for v in consts(a,set()))]
worst = 0; n = 0
for name, hyp, f in queries:
    s = Solver(); s.add(*range_ax)
    need = set();
    for e in hyp + [f]: consts(e, need)
    done = set(); added = True
    while added:
        added = False
        for v in list(need):
            if v in done: continue
            done.add(v)
            for a in ax_by_var.get(v, []):
                s.add(a); before = len(need); consts(a, need); added = added or len(need) > before
    s.add(*hyp); s.add(f); t = time.time(); r = s.check(); dt = time.time() - t; worst = max(worst, dt)
    n += 1
    if n % 50 == 0: print('  ..', n, 'queries, worst %.2fs' % worst, res)
    res[str(r)] = res.get(str(r), 0) + 1
    if r != unsat: print('NOT unsat:', name, r)
print('verdicts', res, 'total %.1fs' % (time.time() - t1), 'worst %.2fs' % worst)
