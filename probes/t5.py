import time
from z3 import *
q=0xB640000002A3A6F1D603AB4FF58EC74521F2934B1A7AEEDBE56F9B27E351457D
a0,a1,a2,b0,b1,b2,xi=Ints('a0 a1 a2 b0 b1 b2 xi')
aa=a0*b0; bb=a1*b1; cc=a2*b2
c0=((a1+a2)*(b1+b2)-bb-cc)*xi+aa
c1=(a0+a1)*(b0+b1)-aa-bb+cc*xi
c2=(a0+a2)*(b0+b2)-aa-bb-cc   # mutant: -bb instead of +bb
r0=a0*b0+xi*(a1*b2+a2*b1); r1=a0*b1+a1*b0+xi*a2*b2; r2=a0*b2+a1*b1+a2*b0
s=Solver(); 
for v in (a0,a1,a2,b0,b1,b2,xi): s.add(v>=0,v<q)
s.add(Or((c0-r0)%q!=0,(c1-r1)%q!=0,(c2-r2)%q!=0)); t=time.time(); print(s.check(), time.time()-t); print(s.model())
